"""C01 - SELECT results equal SQL bag semantics for every query and database."""
import random, json
import vlib, rel


def run(tier):
    rep = vlib.Report("C01", tier)
    rng = random.Random(vlib.seed())
    tables = rel.gen_tables(rep, "C01-gent")
    d1 = rel.gen_select(rep, "C01-gen1", 1)
    nsim, k = (100, 100) if tier == "quick" else (150, 40)
    deep = rel.gen_select(rep, "C01-gensim", 3, simulate=nsim, seed=vlib.seed(), sample_k=k)
    deep = [p for p in deep if p["d"] >= 2]
    if tier == "thorough":
        d2 = rel.gen_select(rep, "C01-gen2", 2, timeout=1500, sample_k=300)
        deep += [p for p in d2 if p["d"] == 2]
    ndb1, ndb2 = (5, 2) if tier == "quick" else (6, 3)
    dbs = rel.pick_dbs(tables, rng, ndb1)
    run_ = rel.RelRun(rep, "select")
    styles = [None, {"quoted": True}, {"longtext": True}]
    for qi, p in enumerate(d1):
        for di, db in enumerate(dbs):
            run_.add(rel.shape(p["q"]), p["q"], db, {"partitions": 2}, styles[(qi + di) % 3] if di < 3 else None)
    for qi, p in enumerate(deep):
        for db in rng.sample(dbs, ndb2):
            run_.add(rel.shape(p["q"]), p["q"], db, {"partitions": 1 + qi % 3})
    run_.execute()
    mism = run_.judge()
    run_.report(mism)
    rep.cov["rule"] = ("queries = every composition of <= 1 construct from GenSelect.tla (BFS, exhaustive) and "
                       "seeded -simulate samples of depth 2-3 (thorough: plus a sample of the depth-2 BFS); "
                       "each on corner-case and seeded random databases over A(a,b), B(a,b), S(a,s) built from "
                       "TLC-enumerated tables (<= 3 rows over {NULL,0,1,2}); non-trivial = non-empty result; "
                       "distinct by (query, database)")
    rep.cov["exhaustive"] = False
    rep.assumptions += ["sqlgen rendering (term -> SQL) is trusted", "TLC evaluates Algebra.tla correctly",
                        "values stay inside the small relational domain (wide values: C05/C12/C13)"]
    return rep.finish()


def replay(path):
    import c06
    return c06.replay(path)
