"""C06 - joins return exactly the defined pairs and unmatched rows."""
import itertools, random, json
import vlib, rel, scale


def configs(tier):
    base = [{"partitions": 1, "hash_joins": True}, {"partitions": 1, "hash_joins": False},
            {"partitions": 3, "hash_joins": True, "batch_size": 2},
            {"partitions": 3, "hash_joins": False, "batch_size": 2, "threads": 4, "_style": {"bare_on": True}}]
    if tier == "thorough":
        base += [{"partitions": 8, "hash_joins": True, "threads": 8},
                 {"partitions": 2, "hash_joins": True, "optimizer": False},
                 {"partitions": 2, "hash_joins": False, "optimizer": False}]
    return base


def run(tier):
    rep = vlib.Report("C06", tier)
    rng = random.Random(vlib.seed())
    mr, mv = (2, 1) if tier == "quick" else (2, 2)
    gq = rel.gen("GenJoin", {"What": '"queries"', "MaxRows": mr, "MaxVal": mv}, "C06-genq")
    gt = rel.gen("GenJoin", {"What": '"tables"', "MaxRows": mr, "MaxVal": mv}, "C06-gent")
    rep.add_tlc(gq, "GEN queries")
    rep.add_tlc(gt, "GEN tables")
    queries = [p for p in gq.printed if "q" in p]
    tables = [p["rows"] for p in gt.printed if "rows" in p]
    pairs = list(itertools.product(tables, tables))
    exhaustive = True
    limit = 250 if tier == "quick" else 2500
    if len(pairs) > limit:
        rng.shuffle(pairs)
        pairs = pairs[:limit]
        exhaustive = False
    cfgs = configs(tier)
    run_ = rel.RelRun(rep, "join")
    for i, (ta, tb) in enumerate(pairs):
        db = rel.make_db({"A": ta, "B": tb})
        cfg = cfgs[i % len(cfgs)] if tier == "quick" else None
        for c in ([cfg] if cfg else cfgs[: 4]):
            c = dict(c)
            style = c.pop("_style", None)
            for qq in queries:
                run_.add("/".join(qq["tag"]), qq["q"], db, c, style=style)
    # formula-built larger inputs: many-to-many matches larger than a batch, many distinct keys
    big = []
    n = 24 if tier == "quick" else 60
    big.append(({"A": [[[k % 3], [k % 5]] for k in range(n)], "B": [[[k % 3], [k % 7]] for k in range(n)]}, "m2m"))
    big.append(({"A": [[[k], [k % 2]] for k in range(n * 2)], "B": [[[k * 2], [1]] for k in range(n * 2)]}, "distinct"))
    big.append(({"A": [[[], [k % 2]] for k in range(n)], "B": [[[], [1]] for k in range(n)]}, "allnull"))
    for tabs, name in big:
        db = rel.make_db(tabs)
        bs = max(len(r) for r in tabs.values())   # smaller than the join output, not than a table chunk (C03 finding)
        for c in [{"partitions": 4, "batch_size": bs, "hash_joins": True, "threads": 4},
                  {"partitions": 4, "batch_size": bs, "hash_joins": False, "threads": 4},
                  # small table chunks + small batches: several probe/build batches from small tables
                  {"partitions": 1, "batch_size": 4, "hash_joins": True, "threads": 2, "_chunk": 4},
                  {"partitions": 2, "batch_size": 4, "hash_joins": True, "threads": 4, "_chunk": 4},
                  {"partitions": 2, "batch_size": 4, "hash_joins": False, "threads": 4, "_chunk": 4}]:
            c = dict(c)
            chunk = c.pop("_chunk", None)
            for qq in queries:
                heavy = qq["tag"][1] in ("eq1", "eq_lt", "exprkey", "eq2", "in_where", "notin_where", "exists_corr",
                                         "notexists_corr", "lt2_eq") or qq["tag"][0].startswith("lateral")
                if not heavy or (tier == "quick" and qq["tag"][1] in ("eq2", "exprkey") and chunk is None):
                    continue
                run_.add("/".join(qq["tag"]) + "@" + name, qq["q"], db, c,
                         extra={"knobs": {"table_chunk_capacity": chunk}} if chunk else None)
    run_.execute()
    mism = run_.judge()

    def nontrivial(it):
        return len(it["obs"]["rows"]) > 0 and all(len(d["rows"]) > 0 for d in it["db"].values())
    run_.report(mism, nontrivial=nontrivial)
    rep.cov["rule"] = ("cases = GenJoin.tla queries (join kind x condition shape, lateral, subquery-compiled "
                       "semi/anti/mark, 3-way) x pairs of TLC-enumerated tables (all bags of <= %d rows of width 2 "
                       "over {NULL,0..%d}) x execution configs; non-trivial = both tables non-empty and the "
                       "result non-empty; distinct by (query, database)" % (mr, mv))
    rep.cov["exhaustive"] = exhaustive
    scale.run(rep, tier, ["joinagg", "leftagg", "semi", "anti"], "C06")
    rep.assumptions += ["sqlgen rendering (term -> SQL) is trusted", "TLC evaluates Algebra.tla correctly"]
    return rep.finish()


def replay(path):
    d = json.load(open(path))
    for v in d["violations"][:20]:
        print(json.dumps(v["signature"]))
        print("  setup:", v["detail"]["setup"])
        print("  sql:", v["detail"]["sql"])
        print("  expected:", v["detail"]["expected"], "observed:", v["detail"]["observed"].get("rows"))
    return 1
