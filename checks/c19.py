"""C19 - malformed Parquet/CSV input fails cleanly, never crashes or hangs."""
import json, random, os, struct
import vlib, pqwrite

DIR = os.path.join(vlib.WORK, "C19-files")

BASE_FILES = {
    "plain_v1": {"columns": [{"name": "x", "type": "INT32", "optional": True}, {"name": "s", "type": "BYTE_ARRAY", "optional": True, "converted": "UTF8"}],
                 "row_groups": [{"pages": [[(1, "a"), (None, "bb"), (3, None)], [(4, "dddddddddddddddd")]]}]},
    "dict_v2_gzip": {"columns": [{"name": "x", "type": "INT64", "optional": True}, {"name": "b", "type": "BOOLEAN", "optional": False}],
                     "row_groups": [{"pages": [[(1, True), (None, False), (1, True), (7, True)]]}, {"pages": [[(2, False)]]}],
                     "dictionary": True, "page_version": 2, "codec": "GZIP", "level_runs": "mixed"},
    "double_req": {"columns": [{"name": "d", "type": "DOUBLE", "optional": False}], "row_groups": [{"pages": [[(1.5,), (-2.0,)], [(0.0,)]]}],
                   "level_runs": "bitpacked"},
    "delta_v1": {"columns": [{"name": "x", "type": "INT64", "optional": True}, {"name": "s", "type": "BYTE_ARRAY", "optional": False, "converted": "UTF8"}],
                 "row_groups": [{"pages": [[(10, "apple"), (None, "apricot"), (7, "banana"), (2 ** 40, "band")], [(5, "c")]]}],
                 "value_encoding": "delta", "delta_strings": "prefix"},
    "delta_len_bss_v2": {"columns": [{"name": "f", "type": "DOUBLE", "optional": False}, {"name": "s", "type": "BYTE_ARRAY", "optional": True}],
                         "row_groups": [{"pages": [[(1.5, b"ab"), (2.5, None), (-1.0, b"abcdefgh")]]}], "page_version": 2, "value_encoding": "delta+bss"},
}
LIE_VALUES = {"neg": lambda v: -abs(v) - 1, "zero": lambda v: 0, "plus1": lambda v: v + 1, "minus1": lambda v: v - 1,
              "i32max": lambda v: 2 ** 31 - 1, "i64max": lambda v: 2 ** 63 - 1}

CSV_FAULTS = {
    "invalid_utf8": b"a,b\n1,\xff\xfe\n2,x\n", "invalid_utf8_header": b"a,\xc3\x28\n1,2\n", "unterminated_quote": b'a,b\n1,"never closed\n2,x\n',
    "unterminated_quote_eof": b'a,b\n1,"x', "ragged_short": b"a,b,c\n1,2\n3,4,5\n", "ragged_long": b"a,b\n1,2,3,4,5\n6,7\n",
    "nul_bytes": b"a,b\n1,\x00\x00\n\x00,2\n", "lone_cr": b"a,b\r1,2\r3,4", "only_newlines": b"\n\n\n\r\n", "empty": b"", "only_header": b"a,b,c\n",
    "huge_field": b"a,b\n1," + b"x" * 200000 + b"\n", "many_columns": (b",".join(b"c%d" % i for i in range(3000)) + b"\n" + b",".join(b"1" for _ in range(3000)) + b"\n"),
    "ragged_compensated": b"a,b,c\n1,2\n3,4,5,6\n7,8,9\n", "ragged_compensated_2": b"a,b,c\n1,2,3\n4\n5,6,7,8,9\n",
    "quote_garbage_after": b'a,b\n"x"y,2\n', "bom": b"\xef\xbb\xbfa,b\n1,2\n", "type_flip_late": b"a\n" + b"1\n" * 3000 + b"x\n",
    "int_overflow": b"a\n99999999999999999999999\n1\n", "float_weird": b"a\n1e999\n-1e999\nnan\n", "delim_only": b",,,\n,,,\n", "tabs_and_commas": b"a\tb,c\n1\t2,3\n",
}


def run(tier):
    rep = vlib.Report("C19", tier, level="fault_enumeration")
    rng = random.Random(vlib.seed())
    vlib.workdir("C19-files")
    cases, meta = [], {}

    def add(path, info):
        sqlfn = "read_csv" if path.endswith(".csv") else "read_parquet"
        steps = [{"sql": f"SELECT * FROM {sqlfn}('{path}')"}, {"sql": "SELECT 1"}]
        if sqlfn == "read_parquet":
            steps.insert(1, {"sql": f"SELECT * FROM parquet.column_metadata('{path}')"})
        cid = len(cases)
        cases.append({"id": cid, "rt": {"kind": "threaded", "threads": 2}, "steps": steps, "timeout": 20})
        meta[cid] = info
    nplans = 0
    for name, desc in BASE_FILES.items():
        data, regions = pqwrite.write(desc)
        regfile = os.path.join(DIR, f"{name}.regions.json")
        with open(regfile, "w") as f:
            f.write(json.dumps({"len": len(data), "regions": [{"name": k, "s": s, "e": e} for k, (s, e) in regions.items()]}) + "\n")
        k = 5 if tier == "quick" else 1
        g = vlib.tlc("Faults", f"INIT Init\nNEXT Next\nINVARIANT Emit\nCHECK_DEADLOCK FALSE\nCONSTANTS SampleK = {k}\n", f"C19-gen-{name}",
                     env={"REGIONS": regfile}, workers=2, timeout=600)
        if g.error:
            raise vlib.ToolError(f"Faults generator: {g.error}")
        rep.add_tlc(g, f"GEN fault plans for {name} ({len(data)} bytes)")
        plans = [p for p in g.printed if "k" in p]
        nplans += len(plans)
        for pi, p in enumerate(plans):
            if p["k"] == "truncate":
                out = data[:p["at"]]
            elif p["k"] == "flip":
                b = bytearray(data)
                old = b[p["at"]]
                b[p["at"]] = {"bit0": old ^ 1, "zero": 0, "ff": 0xFF, "inc": (old + 1) & 0xFF}[p["how"]]
                if b[p["at"]] == old:
                    continue
                out = bytes(b)
            elif p["k"] == "delta_lie":
                if desc.get("value_encoding") not in ("delta", "delta+bss"):
                    continue
                try:
                    out, _ = pqwrite.write(dict(desc, lies={"delta.len_patch": {"stream": p["field"], "cls": p["cls"]}}))
                except Exception:
                    continue
                if out == data:
                    continue
            elif p["cls"].startswith("fsize"):
                off = {"fsize": 0, "fsize_m1": 1, "fsize_m4": 4, "fsize_m7": 7, "fsize_m8": 8, "fsize_m9": 9}[p["cls"]]
                out, _ = pqwrite.write(dict(desc, lies={"file.footer_len": len(data) - off}))
            else:
                # a lie: rewrite the field consistently in the thrift structure by re-encoding the file
                base_val = {"file.num_rows": 5, "file.footer_len": 100, "file.version": 1, "schema.num_children": len(desc["columns"]),
                            "rg.num_rows": 4, "rg.total_byte_size": 100, "chunk.num_values": 4, "chunk.total_compressed_size": 60,
                            "chunk.total_uncompressed_size": 60, "chunk.data_page_offset": 4, "chunk.dictionary_page_offset": 4,
                            "chunk.file_offset": 4, "page.num_values": 3, "page.uncompressed_size": 20, "page.compressed_size": 20,
                            "page.def_levels_len": 2, "dict.num_values": 3}[p["field"]]
                v = LIE_VALUES[p["cls"]](base_val)
                if p["field"] in ("file.version", "schema.num_children", "page.num_values", "page.uncompressed_size", "page.compressed_size",
                                  "page.def_levels_len", "dict.num_values", "file.footer_len"):
                    v = max(-2 ** 31, min(2 ** 31 - 1, v))
                try:
                    out, _ = pqwrite.write(dict(desc, lies={p["field"]: v}))
                except Exception:
                    continue
            path = os.path.join(DIR, f"{name}_{pi}.parquet")
            with open(path, "wb") as f:
                f.write(out)
            add(path, {"base": name, "plan": p})
    for name, data in CSV_FAULTS.items():
        path = os.path.join(DIR, f"{name}.csv")
        with open(path, "wb") as f:
            f.write(data)
        add(path, {"base": "csv", "plan": {"k": "csv", "field": name}})
    # truncations and flips of a valid CSV
    good = b'id,name,value\n1,"a,b",1.5\n2,"say ""hi""",\n3,plain,-2\n'
    for at in range(len(good)):
        path = os.path.join(DIR, f"csvtrunc_{at}.csv")
        with open(path, "wb") as f:
            f.write(good[:at])
        add(path, {"base": "csv", "plan": {"k": "truncate", "at": at}})
    res = vlib.Driver(nworkers=14, case_timeout=20, mem_gb=1.5).run(cases)
    lines = []
    for c, r in zip(cases, res):
        m = meta[c["id"]]
        if r is None or "steps" not in r:
            out = "abort" if (r or {}).get("abort") else "timeout" if (r or {}).get("timeout") else "fatal"
            m["msg"] = " || ".join(p for p in (r or {}).get("panic", []) if p)[:200] or (r or {}).get("stderr_tail", "")[-200:]
            probe = "missing"
        else:
            o = r["steps"][0][-1]
            out = o.get("outcome")
            m["msg"] = (o.get("msg") or "")[:200]
            probe = r["steps"][-1][-1].get("outcome", "missing")
            if len(r["steps"]) == 3 and r["steps"][1][-1].get("outcome") not in ("rows", "error"):
                out = r["steps"][1][-1].get("outcome")
                m["msg"] = (r["steps"][1][-1].get("msg") or "")[:200]
        lines.append({"id": c["id"], "outcome": out, "pre": "", "post": "", "probe": probe})
    wd = vlib.workdir("C19-tv")
    path = os.path.join(wd, "trace.ndjson")
    vlib.write_ndjson(path, lines)
    r = vlib.tlc("TraceSession", "SPECIFICATION TSpec\nPOSTCONDITION Accepted\nCHECK_DEADLOCK FALSE\n", "C19-tv", env={"TRACE": path},
                 workers=1, timeout=900, deque=True)
    if r.error or not r.ok:
        rep.tool_error(f"TraceSession: {r.error or r.violated}")
    else:
        rep.add_tlc(r, "TV fault outcomes", trace_lines=len(lines))
        for mm in [p for p in r.printed if isinstance(p, dict) and "mismatch" in p]:
            m = meta[mm["mismatch"]]
            ln = lines[mm["mismatch"]]
            first = (m.get("msg", "") or "").split(" || ")[0].split("\nnote:")[0]
            whole = m.get("msg", "") or ""
            if "allocation of" in whole or "bytes failed" in whole or ("failed" in first and "allocation" in whole):
                first = "memory allocation failed"
            sig = {"family": "fault", "format": "csv" if m["base"] == "csv" else "parquet", "observed": ln["outcome"],
                   "msg": vlib.re.sub(r"\d+", "#", first)[:150]}
            if ln["outcome"] in ("timeout", "hang") or not sig["msg"]:
                sig["plan"] = m["plan"].get("field") or m["plan"]["k"]
            rep.mismatch(sig, {"file": cases[mm["mismatch"]]["steps"][0]["sql"], "plan": m["plan"], "base": m["base"], "msg": m.get("msg")})
    rep.cov["evaluations"] = len(lines)
    rep.cov["distinct_nontrivial"] = sum(1 for l in lines if l["outcome"] == "error")
    rep.cov["outcomes"] = {k: sum(1 for l in lines if l["outcome"] == k) for k in sorted({l["outcome"] for l in lines})}
    rep.cov["samples"] = [{"plan": meta[l["id"]]["plan"], "base": meta[l["id"]]["base"], "outcome": l["outcome"]} for l in lines[:3]]
    rep.cov["rule"] = ("for each of 3 valid generated Parquet files (v1 plain, v2 dictionary gzip, required doubles) Faults.tla enumerates "
                       "the fault plans over the file's region map: truncation at every region boundary +-1 and length classes, single-byte "
                       "corruption (4 classes) of every footer / page-header byte (quick: 1/12 sample) and every 7th data byte, and lies "
                       "(6 classes) in 17 numeric metadata fields; CSV: 20 malformed files and every truncation of a valid file; each read "
                       "runs in a child process with a 1.5 GiB address-space limit and a 20 s limit; TraceSession.tla admits only "
                       "rows | error and requires the session to answer afterwards; non-trivial = the read failed with an error")
    rep.cov["exhaustive"] = tier == "thorough"
    return rep.finish()


def replay(path):
    import c14
    return c14.replay(path)
