"""C12 - integer and decimal arithmetic is exact or fails; never wraps or crashes."""
import json, random, os, itertools, concurrent.futures
import vlib, rel
from bigint import enc, dec

OPS = {"add": "+", "sub": "-", "mul": "*"}
TYPEINFO = {"Int8": (8, True), "Int16": (16, True), "Int32": (32, True), "Int64": (64, True), "Int128": (128, True),
            "UInt8": (8, False), "UInt16": (16, False), "UInt32": (32, False), "UInt64": (64, False), "UInt128": (128, False)}


def rng_of(w, s):
    return (-(1 << (w - 1)), (1 << (w - 1)) - 1) if s else (0, (1 << w) - 1)


def lit(v, ty):
    return f"CAST({v} AS {ty})" if v >= 0 else f"CAST(({v}) AS {ty})"


def out_of(step):
    """statement observation -> out record for TraceArith (value transported by Python int)"""
    o = step[-1] if step else {"outcome": "missing"}
    return o


def val_json(v):
    if isinstance(v, dict) and "big" in v:
        return int(v["big"])
    if isinstance(v, bool) or v is None:
        return None
    if isinstance(v, int):
        return v
    return None


def plan_batches(ty, w, s, vals, tier, rng):
    """driver-side batching only: which pairs can share a bulk statement (no failing row expected);
    the judgement of every tuple is TLC's (TraceArith.tla)."""
    lo, hi = rng_of(w, s)
    pairs = list(itertools.product(vals, vals))
    if tier == "quick" and len(pairs) > 3000:
        keep = [p for p in pairs if abs(p[0]) % 16 in (0, 1, 15) or abs(p[1]) % 16 in (0, 1, 15) or p[0] in (lo, hi) or p[1] in (lo, hi)]
        rng.shuffle(keep)
        pairs = keep[:3000]
    return pairs


INT_LIMITS = {"TINYINT": 8, "SMALLINT": 16, "INT": 32, "BIGINT": 64}


def operand_value(t, cls):
    """instantiate a boundary class (GenDecArith.tla) for an operand type -> (unscaled integer, scale)"""
    if t["k"] == "int":
        w = INT_LIMITS[t["ty"]]
        hi, lo = (1 << (w - 1)) - 1, -(1 << (w - 1))
        digits = len(str(hi))
        v = {"max": hi, "min": lo, "half": hi // 2 + 1, "unit": 1, "one": 1, "zero": 0, "negunit": -1, "maxm1": hi - 1,
             "p10": 10 ** (digits - 1), "negp10": -(10 ** (digits - 1))}[cls]
        return v, 0
    p_, s_ = t["p"], t["s"]
    v = {"max": 10 ** p_ - 1, "min": -(10 ** p_ - 1), "half": 5 * 10 ** (p_ - 1), "unit": 1, "one": min(10 ** s_, 10 ** p_ - 1), "zero": 0,
         "negunit": -1, "maxm1": 10 ** p_ - 2, "p10": 10 ** (p_ - 1), "negp10": -(10 ** (p_ - 1))}[cls]
    return v, s_


def round_value(t, cls, d):
    """round(x, d) operand classes: ties at the first dropped digit and their neighbours"""
    p_, s_ = t["p"], t["s"]
    dk = min(d, s_)
    drop = s_ - dk                      # number of dropped digits
    if cls in ("max", "min", "zero", "unit", "negunit"):
        return operand_value(t, cls)[0]
    if drop == 0:
        base = 15                       # nothing is dropped: any value
    else:
        base = 10 ** drop + 5 * 10 ** (drop - 1)         # 1.5 units of the kept digit
    v = {"tiepos": base, "tieneg": -base, "belowtie": base - 1, "abovetie": base + 1, "negbelowtie": -(base - 1)}[cls]
    lim = 10 ** p_ - 1
    return max(-lim, min(lim, v))


def sql_type(t):
    return t["ty"] if t["k"] == "int" else f"DECIMAL({t['p']},{t['s']})"


def dec_text(u, s_):
    neg = u < 0
    d = str(abs(u)).rjust(s_ + 1, "0")
    txt = d if s_ == 0 else d[:-s_] + "." + d[-s_:]
    return ("-" if neg else "") + txt


def dec_lit(u, s_, t):
    return f"CAST('{dec_text(u, s_)}' AS {sql_type(t)})"


def parse_announced(tname):
    m = vlib.re.match(r"^Decimal(64|128)\((\d+),(-?\d+)\)$", tname or "")
    return (int(m.group(2)), int(m.group(3))) if m else None


def operand_obs(v):
    """engine value of an operand column -> (unscaled, scale) as the engine holds it"""
    if isinstance(v, dict) and "dec" in v:
        return int(v["dec"][0]), int(v["dec"][2])
    if isinstance(v, dict) and "big" in v:
        return int(v["big"]), 0
    if isinstance(v, int) and not isinstance(v, bool):
        return v, 0
    return None


def decimal_part(rep, tier, rng):
    """decimal arithmetic (DecArith.tla): TLC-generated (type pair, operator, boundary classes) cases"""
    k = 40 if tier == "quick" else 1
    g = vlib.tlc("GenDecArith", f"INIT Init\nNEXT Next\nINVARIANT Emit\nCHECK_DEADLOCK FALSE\nCONSTANTS SampleK = {k}\n", "C12-gendec",
                 workers=6, timeout=1200, heap="6g")
    if g.error:
        raise vlib.ToolError(f"GenDecArith: {g.error}")
    rep.add_tlc(g, f"GEN decimal operand type pairs x operators x boundary classes (1/{k} sample)")
    gen = [c for c in g.printed if isinstance(c, dict) and "kind" in c]
    SYM = {"add": "+", "sub": "-", "mul": "*"}
    per = 30
    cases, plans = [], []
    for i in range(0, len(gen), per):
        chunk = gen[i:i + per]
        steps, plan = [], []
        for ci, c in enumerate(chunk):
            if c["kind"] == "round":
                (ua, sa), (ub, sb) = (round_value(c["a"], c["ca"], c["n"]), c["a"]["s"]), (0, c["a"]["s"])
            else:
                ua, sa = operand_value(c["a"], c["ca"])
                ub, sb = operand_value(c["b"], c["cb"])
            la, lb = dec_lit(ua, sa, c["a"]), dec_lit(ub, sb, c["b"])
            if c["kind"] == "sum":
                n = c["n"]
                tn = f"d{ci}"
                steps.append({"sql": f"CREATE TEMP TABLE {tn} (a {sql_type(c['a'])})"})
                steps.append({"sql": f"INSERT INTO {tn} VALUES " + ", ".join([f"({la})"] * (n - 1) + [f"({lb})"])})
                steps.append({"sql": f"DESCRIBE SELECT sum(a) FROM {tn}"})
                steps.append({"sql": f"SELECT sum(a) FROM {tn}"})
                plan.append((c, len(steps) - 2, len(steps) - 1, [ua] * (n - 1) + [ub], sa))
                continue
            if c["kind"] == "round":
                e = f"round(a, {c['n']})" if c["n"] or (i + ci) % 3 else "round(a)"
            elif c["kind"] == "un":
                e = "-a" if c["op"] == "neg" else "abs(a)"
            else:
                e = f"a {SYM[c['op']]} b"
            # alternately over a VALUES relation (runtime path) and as a constant expression (folded at plan time)
            src = f"(VALUES ({la}, {lb})) v(a, b)" if (i + ci) % 2 == 0 else f"(SELECT {la} AS a, {lb} AS b) v"
            steps.append({"sql": f"DESCRIBE SELECT {e} FROM {src}"})
            steps.append({"sql": f"SELECT a, b, {e} FROM {src}"})
            plan.append((c, len(steps) - 2, len(steps) - 1, None, None))
        cases.append({"id": len(cases), "rt": {"kind": "threaded", "threads": 2}, "steps": steps, "timeout": 120})
        plans.append(plan)
    res = vlib.Driver(nworkers=14, case_timeout=120).run(cases)
    lines, info = [], {}
    skipped = {"bind_rejected": 0, "non_decimal_result": 0, "operand_cast_failed": 0}
    for c, r, plan in zip(cases, res, plans):
        if r is None or "steps" not in r:
            # a crash inside a bulk case: rerun its statements individually to attribute it
            singles = []
            for (gc, di, qi, vs, ss) in plan:
                pre = c["steps"][qi - 3:qi - 1] if gc["kind"] == "sum" else []
                singles.append({"id": len(singles), "rt": c["rt"], "steps": pre + [c["steps"][di], c["steps"][qi]], "timeout": 30})
            rr = vlib.Driver(nworkers=14, case_timeout=30).run(singles)
            stepres = {}
            for (gc, di, qi, vs, ss), x in zip(plan, rr):
                if x and "steps" in x:
                    stepres[di], stepres[qi] = x["steps"][-2], x["steps"][-1]
                else:
                    stepres[di] = [{"outcome": "unknown"}]
                    stepres[qi] = [{"outcome": "abort" if (x or {}).get("abort") else "timeout",
                                    "msg": " || ".join(q for q in (x or {}).get("panic", []) if q)[:200]}]
        else:
            stepres = dict(enumerate(r["steps"]))
        for (gc, di, qi, vs, ss) in plan:
            d, o = stepres[di][-1], stepres[qi][-1]
            ann = parse_announced(d["rows"][0][1]) if d.get("outcome") == "rows" and d.get("rows") else None
            if ann is None:
                if d.get("outcome") == "rows":
                    skipped["non_decimal_result"] += 1
                    continue
                if o.get("outcome") in ("rows", "error"):
                    skipped["bind_rejected"] += 1
                    continue
                ann = (38, 0)   # a crash without an announced type: still an inadmissible outcome
            rec = {"id": len(lines), "kind": gc["kind"], "op": gc["op"], "u1": enc(0), "s1": 0, "u2": enc(0), "s2": 0, "rp": ann[0], "rs": ann[1],
                   "vs": [], "out": {"k": "none", "v": enc(0), "p": 0, "s": 0}}
            if gc["kind"] == "sum":
                rec["vs"], rec["s1"] = [enc(v) for v in vs], ss
                val = o["rows"][0][0] if o.get("outcome") == "rows" and o["rows"] else None
            else:
                if gc["kind"] == "round":
                    (ua, sa), (ub, sb) = (round_value(gc["a"], gc["ca"], gc["n"]), gc["a"]["s"]), (0, gc["a"]["s"])
                else:
                    ua, sa = operand_value(gc["a"], gc["ca"])
                    ub, sb = operand_value(gc["b"], gc["cb"])
                val = None
                if o.get("outcome") == "rows" and o["rows"]:
                    row = o["rows"][0]
                    oa, ob = operand_obs(row[0]), operand_obs(row[1])
                    if oa is None or ob is None:
                        skipped["operand_cast_failed"] += 1
                        continue
                    (ua, sa), (ub, sb) = oa, ob     # what the engine holds as operands
                    val = row[2]
                rec.update(u1=enc(ua), s1=sa, u2=enc(ub), s2=sb)
                if gc["kind"] == "round":
                    # s2 carries the digits argument; u2 a witness quotient that DecArith.tla verifies (RoundOK), never trusts
                    dk = min(gc["n"], sa)
                    w = 0
                    if isinstance(val, dict) and "dec" in val and int(val["dec"][2]) >= dk:
                        w = int(val["dec"][0]) // 10 ** (int(val["dec"][2]) - dk) if int(val["dec"][0]) >= 0 else -((-int(val["dec"][0])) // 10 ** (int(val["dec"][2]) - dk))
                    rec.update(s2=gc["n"], u2=enc(w))
            if o.get("outcome") == "rows":
                if isinstance(val, dict) and "dec" in val:
                    rec["out"] = {"k": "val", "v": enc(int(val["dec"][0])), "p": int(val["dec"][1]), "s": int(val["dec"][2])}
                elif val is None:
                    rec["out"]["k"] = "null"
                else:
                    rec["out"]["k"] = "non-decimal"
            elif o.get("outcome") == "error":
                rec["out"]["k"] = "err"
            else:
                rec["out"]["k"] = o.get("outcome") or "missing"
            lines.append(rec)
            info[rec["id"]] = {"case": gc, "sql": c["steps"][qi]["sql"], "announced": ann, "obs": {k2: v2 for k2, v2 in o.items() if k2 != "rows"},
                               "value": val}
    wd = vlib.workdir("C12-dec")
    chunks = [lines[i:i + 12000] for i in range(0, len(lines), 12000)]
    mism = []

    def one(ci):
        path = os.path.join(wd, f"trace{ci}.ndjson")
        vlib.write_ndjson(path, chunks[ci])
        return ci, vlib.tlc("TraceDecArith", "SPECIFICATION TSpec\nPOSTCONDITION Accepted\nCHECK_DEADLOCK FALSE\n", f"C12-dectv{ci}",
                            env={"TRACE": path}, workers=1, timeout=1700, deque=True, heap="3g")
    with concurrent.futures.ThreadPoolExecutor(max_workers=6) as ex:
        for ci, r in ex.map(one, range(len(chunks))):
            if r.error or not r.ok:
                rep.tool_error(f"TraceDecArith chunk {ci}: {r.error or r.violated}: {r.out[-800:]}")
                continue
            rep.add_tlc(r, f"TV decimal arithmetic#{ci}", trace_lines=len(chunks[ci]))
            mism += [p for p in r.printed if isinstance(p, dict) and "mismatch" in p]
    for m in mism:
        i = info[m["mismatch"]]
        gc = i["case"]
        wide = lambda t: "int" if t["k"] == "int" else ("d128" if t["p"] > 18 else "d64")
        i["operands"] = wide(gc["a"]) + "/" + wide(gc["b"])
        msg = vlib.re.sub(r"\d+", "#", i["obs"].get("msg", "") or "")
        msg = vlib.re.sub(r"/rustc/[0-9a-f#]+/", "/rustc/", msg).split(" || ")[0][:110]
        sig = {"family": "dec_arith", "why": m["why"], "observed": i["obs"].get("outcome"), "msg": msg}
        if m["why"] != "outcome":
            sig["op"] = gc["op"]
        rep.mismatch(sig, i)
    rep.cov["decimal_rule"] = (f"GenDecArith.tla: operand type pairs from 11 DECIMAL(p,s) types (Decimal64 and Decimal128, scales 0..p-1) and 4 integer types "
                               f"x {{+,-,*}} x 10x10 boundary classes, unary minus / abs, round(x[, d]) at ties and their neighbours, SUM over 1-11 rows (1/{k} sample); DecArith.tla judges on BigInt terms: "
                               "exact unscaled result at the announced scale, |u| < 10^p of the announced precision, an error exactly when the announced type "
                               "cannot hold the exact result")
    rep.cov["decimal_skipped"] = skipped
    return len(lines)


def run(tier):
    rep = vlib.Report("C12", tier)
    rng = random.Random(vlib.seed())
    g = rel.gen("GenArith", {}, "C12-gen", timeout=600)
    rep.add_tlc(g, "GEN operand sets per integer type (8-bit: all values; wider: boundary sets)")
    types = [p for p in g.printed if "ty" in p]
    cases, meta = [], {}
    lines = []
    for t in types:
        ty, w, s = t["ty"]["n"], t["ty"]["w"], t["ty"]["s"]
        vals = sorted(dec(v) for v in t["vals"])
        lo, hi = rng_of(w, s)
        pairs = plan_batches(ty, w, s, vals, tier, rng)
        for op, sym in list(OPS.items()) + [("divrem", None)]:
            def fails(a, b):
                if op == "divrem":
                    return b == 0 or (s and a == lo and b == -1)
                r = a + b if op == "add" else a - b if op == "sub" else a * b
                return not (lo <= r <= hi)
            good = [p for p in pairs if not fails(*p)]
            bad = [p for p in pairs if fails(*p)]
            if tier == "quick":
                rng.shuffle(bad)
                bad = bad[:12]
            elif len(bad) > 1500:
                # every error-expected pair crashes its worker process on the unchanged tree (KF-INT-OVERFLOW-PANIC), at ~0.3 s per
                # respawn: the thorough tier keeps the pairs next to the boundary and a seeded sample of the rest
                near = [p_ for p_ in bad if min(abs(p_[0] - lo), abs(p_[0] - hi), abs(p_[1] - lo), abs(p_[1] - hi)) <= 2]
                near_set = set(near)
                rest = [p_ for p_ in bad if p_ not in near_set]
                rng.shuffle(rest)
                bad = near[:700] + rest[:800]
            expr = f"a {sym} b" if sym else "a / b, a % b"
            # bulk: one statement for all value-expected pairs, executed over a table (column path)
            for i in range(0, len(good), 4000):
                chunk = good[i:i + 4000]
                rows = ", ".join(f"({lit(a, ty)}, {lit(b, ty)})" for a, b in chunk)
                steps = [{"sql": f"CREATE TEMP TABLE args (a {ty}, b {ty})"}, {"sql": f"INSERT INTO args VALUES {rows}"},
                         {"sql": f"DESCRIBE SELECT {expr} FROM args"}, {"sql": f"SELECT a, b, {expr} FROM args"}]
                cid = len(cases)
                cases.append({"id": cid, "rt": {"kind": "threaded", "threads": 2}, "steps": steps, "timeout": 120})
                meta[cid] = ("bulk", ty, w, s, op, chunk)
            # individually: every error-expected pair, as a folded constant and over a one-row table
            for a, b in bad:
                cexpr = (f"{lit(a, ty)} {sym} {lit(b, ty)}" if sym else f"{lit(a, ty)} / {lit(b, ty)}, {lit(a, ty)} % {lit(b, ty)}")
                steps = [{"sql": f"CREATE TEMP TABLE args (a {ty}, b {ty})"}, {"sql": f"INSERT INTO args VALUES ({lit(a, ty)}, {lit(b, ty)})"},
                         {"sql": f"DESCRIBE SELECT {expr} FROM args"}, {"sql": f"SELECT {cexpr}"}, {"sql": "SELECT 1"},
                         {"sql": f"SELECT a, b, {expr} FROM args"}]
                cid = len(cases)
                cases.append({"id": cid, "rt": {"kind": "threaded", "threads": 2}, "steps": steps, "timeout": 30})
                meta[cid] = ("single", ty, w, s, op, [(a, b)])
        # unary minus over the whole operand set
        rows = ", ".join(f"({lit(a, ty)}, {lit(0, ty)})" for a in vals if not (s and a == lo) and s)
        if rows:
            cid = len(cases)
            cases.append({"id": cid, "rt": {"kind": "threaded", "threads": 2}, "timeout": 60,
                          "steps": [{"sql": f"CREATE TEMP TABLE args (a {ty}, b {ty})"}, {"sql": f"INSERT INTO args VALUES {rows}"},
                                    {"sql": "DESCRIBE SELECT -a FROM args"}, {"sql": "SELECT a, b, -a FROM args"}]})
            meta[cid] = ("bulk", ty, w, s, "neg", [(a, 0) for a in vals if not (s and a == lo)])
        if s:
            cid = len(cases)
            cases.append({"id": cid, "rt": {"kind": "threaded", "threads": 2}, "timeout": 30,
                          "steps": [{"sql": f"CREATE TEMP TABLE args (a {ty}, b {ty})"}, {"sql": f"INSERT INTO args VALUES ({lit(lo, ty)}, {lit(0, ty)})"},
                                    {"sql": "DESCRIBE SELECT -a FROM args"}, {"sql": f"SELECT -{lit(lo, ty)}"}, {"sql": "SELECT 1"},
                                    {"sql": "SELECT a, b, -a FROM args"}]})
            meta[cid] = ("single", ty, w, s, "neg", [(lo, 0)])
        # SUM: exact in the announced type or an error
        for name, col in (("sum_small", [1, 2, 3, -4 if s else 4]), ("sum_overflow", [hi, 1]), ("sum_cancel", [hi, lo, hi] if s else [hi, 0, 1]),
                          ("sum_zeros", [0, 0, 0]), ("sum_cancel_to_zero", [lo + 1, hi, 0] if s else [0])):
            rows = ", ".join(f"({lit(a, ty)}, {lit(0, ty)})" for a in col)
            cid = len(cases)
            cases.append({"id": cid, "rt": {"kind": "threaded", "threads": 2}, "timeout": 30,
                          "steps": [{"sql": f"CREATE TEMP TABLE args (a {ty}, b {ty})"}, {"sql": f"INSERT INTO args VALUES {rows}"},
                                    {"sql": "DESCRIBE SELECT sum(a) FROM args"}, {"sql": "SELECT sum(a) FROM args"}]})
            meta[cid] = ("sum", ty, w, s, name, col)
    res = vlib.Driver(nworkers=14, case_timeout=120).run(cases)

    def rty_of(step):
        try:
            return TYPEINFO[step[-1]["rows"][0][1]]
        except Exception:
            return None

    def outrec(o, idx=None, row=None):
        k = o.get("outcome")
        if k == "rows":
            v = val_json(row[idx]) if row is not None else None
            if v is None:
                return {"k": "null", "v": enc(0)}
            return {"k": "val", "v": enc(v)}
        if k == "error":
            return {"k": "err", "v": enc(0)}
        return {"k": k or "missing", "v": enc(0)}

    info = {}
    for c, r in zip(cases, res):
        kind, ty, w, s, op, data = meta[c["id"]]
        dead = r is None or "steps" not in r
        died = {"outcome": "abort" if (r or {}).get("abort") else "timeout" if (r or {}).get("timeout") else "fatal",
                "msg": " || ".join(p for p in (r or {}).get("panic", []) if p)} if dead else None
        if dead:
            # cannot know the announced type: assume the operand type (what DESCRIBE reports on the unchanged tree)
            rty = (w, s)
            steps = None
        else:
            steps = r["steps"]
            rty = rty_of(steps[2]) or (w, s)
            if steps[1][-1].get("outcome") != "rows":
                died = {"outcome": "setup-failed", "msg": steps[1][-1].get("msg", "")[:200]}
        R = {"w": rty[0], "s": rty[1]}

        def add_line(rec, what, a, b, o):
            rec["id"] = len(lines)
            for f, dflt in (("a", enc(0)), ("b", enc(0)), ("out", {"k": "none", "v": enc(0)}), ("outq", {"k": "none", "v": enc(0)}),
                            ("outr", {"k": "none", "v": enc(0)}), ("vs", []), ("op", "")):
                rec.setdefault(f, dflt)
            rec["rty"] = R
            lines.append(rec)
            info[rec["id"]] = {"type": ty, "op": op, "context": what, "a": a, "b": b, "obs": {k: v for k, v in (o or {}).items() if k != "rows"}}
        if kind == "sum":
            o = died or steps[3][-1]
            if not died and rty_of(steps[2]) is None:
                # SUM announced with a non-integer type (e.g. Float64 for UBIGINT): outside integer exactness
                rep.cov["families"].setdefault("sum_non_integer_type", []).append({"type": ty, "announced": steps[2][-1].get("rows")})
                continue
            row = o["rows"][0] if o.get("outcome") == "rows" and o["rows"] else None
            add_line({"kind": "sum", "vs": [enc(v) for v in data], "out": outrec(o, 0, row)}, "sum:" + op, data, None, o)
            continue
        if kind == "bulk":
            o = died or steps[3][-1]
            byab = {}
            if o.get("outcome") == "rows":
                for row in o["rows"]:
                    byab[(val_json(row[0]), val_json(row[1]))] = row
            for a, b in data:
                row = byab.get((a, b))
                oo = o if (row is not None or o.get("outcome") != "rows") else {"outcome": "row-missing"}
                if op == "divrem":
                    add_line({"kind": "divrem", "a": enc(a), "b": enc(b), "outq": outrec(oo, 2, row), "outr": outrec(oo, 3, row)}, "column", a, b, oo)
                else:
                    add_line({"kind": "simple", "op": op, "a": enc(a), "b": enc(b), "out": outrec(oo, 2, row)}, "column", a, b, oo)
            continue
        # single: constant-folded (step 3) and one-row column (last step)
        a, b = data[0]
        for what, si in (("constant", 3), ("column", len(c["steps"]) - 1)):
            o = died or steps[si][-1]
            row = o["rows"][0] if o.get("outcome") == "rows" and o["rows"] else None
            base = 0 if what == "constant" else 2
            if op == "divrem":
                add_line({"kind": "divrem", "a": enc(a), "b": enc(b), "outq": outrec(o, base, row), "outr": outrec(o, base + 1, row)}, what, a, b, o)
            else:
                add_line({"kind": "simple", "op": op, "a": enc(a), "b": enc(b), "out": outrec(o, base, row)}, what, a, b, o)
    rep.cov["evaluations"] = len(lines) + decimal_part(rep, tier, rng)
    wd = vlib.workdir("C12-tv")
    chunks = [lines[i:i + 12000] for i in range(0, len(lines), 12000)]
    mism = []

    def one(ci):
        path = os.path.join(wd, f"trace{ci}.ndjson")
        vlib.write_ndjson(path, chunks[ci])
        return ci, vlib.tlc("TraceArith", "SPECIFICATION TSpec\nPOSTCONDITION Accepted\nCHECK_DEADLOCK FALSE\n", f"C12-tv{ci}",
                            env={"TRACE": path}, workers=1, timeout=1700, deque=True, heap="3g")
    with concurrent.futures.ThreadPoolExecutor(max_workers=6) as ex:
        for ci, r in ex.map(one, range(len(chunks))):
            if r.error or not r.ok:
                rep.tool_error(f"TraceArith chunk {ci}: {r.error or r.violated}: {r.out[-800:]}")
                continue
            rep.add_tlc(r, f"TV arithmetic#{ci}", trace_lines=len(chunks[ci]))
            mism += [p for p in r.printed if isinstance(p, dict) and "mismatch" in p]
    nontrivial = set()
    for ln in lines:
        i = info[ln["id"]]
        if ln["kind"] != "sum" and (ln["out"]["k"] == "val" or ln["outq"]["k"] == "val"):
            nontrivial.add((i["type"], i["op"], i["a"], i["b"]))
    for m in mism:
        i = info[m["mismatch"]]
        exp = m["exp"]
        cls = "overflow" if exp["k"] == "err" else "value" if exp["k"] == "val" else "division"
        if i["op"] == "divrem" and i["b"] == -1 and i["a"] is not None and i["a"] < 0 and ((-i["a"]) & (-i["a"] - 1)) == 0 and i["obs"].get("outcome") != "rows":
            cls = "overflow"
        if i["op"] == "divrem" and i["b"] == 0:
            cls = "division-by-zero"
        obs = i["obs"].get("outcome")
        sig = {"family": "int_arith", "op": i["op"] if not i["context"].startswith("sum") else "sum", "class": cls,
               "context": i["context"].split(":")[0], "observed": obs}
        rep.mismatch(sig, dict(i, expected=(dec(exp["v"]) if exp["k"] == "val" else exp["k"])))
    rep.cov["distinct_nontrivial"] = len(nontrivial)
    rep.cov["samples"] = [dict(info[l["id"]], out=l["out"]["k"]) for l in lines[:3]]
    rep.cov["rule"] = ("operand sets from GenArith.tla (8-bit: all 256 values, so all pairs in the thorough tier; 16/32/64-bit: "
                       "boundary sets) x {+,-,*,/ and %,unary minus} x {signed, unsigned}, each value-expected pair evaluated "
                       "over a table column (bulk), each error-expected pair individually as a folded constant and over a "
                       "one-row table, plus SUM; TraceArith.tla judges every tuple on BigInt terms: exact value in the "
                       "announced type, quotient/remainder verified by DivRel, otherwise an error; non-trivial = a value "
                       "was returned; distinct by (type, op, a, b)")
    rep.cov["exhaustive"] = tier == "thorough"
    rep.assumptions += ["the driver's batching plan (which pairs share a statement) is not part of the judgement",
                        "decimal division (evaluated in floating point by the engine), trunc / ceil / floor (float only in the engine) are not judged"]
    return rep.finish()


def replay(path):
    import c14
    return c14.replay(path)
