"""C12 - integer and decimal arithmetic is exact or fails; never wraps or crashes."""
import json, random, os, itertools, concurrent.futures
import vlib, rel
from bigint import enc, dec

OPS = {"add": "+", "sub": "-", "mul": "*"}
TYPEINFO = {"Int8": (8, True), "Int16": (16, True), "Int32": (32, True), "Int64": (64, True), "Int128": (128, True),
            "UInt8": (8, False), "UInt16": (16, False), "UInt32": (32, False), "UInt64": (64, False), "UInt128": (128, False)}


def rng_of(w, s):
    return (-(1 << (w - 1)), (1 << (w - 1)) - 1) if s else (0, (1 << w) - 1)


def lit(v, ty):
    return f"CAST({v} AS {ty})" if v >= 0 else f"CAST(({v}) AS {ty})"


def out_of(step):
    """statement observation -> out record for TraceArith (value transported by Python int)"""
    o = step[-1] if step else {"outcome": "missing"}
    return o


def val_json(v):
    if isinstance(v, dict) and "big" in v:
        return int(v["big"])
    if isinstance(v, bool) or v is None:
        return None
    if isinstance(v, int):
        return v
    return None


def plan_batches(ty, w, s, vals, tier, rng):
    """driver-side batching only: which pairs can share a bulk statement (no failing row expected);
    the judgement of every tuple is TLC's (TraceArith.tla)."""
    lo, hi = rng_of(w, s)
    pairs = list(itertools.product(vals, vals))
    if tier == "quick" and len(pairs) > 3000:
        keep = [p for p in pairs if abs(p[0]) % 16 in (0, 1, 15) or abs(p[1]) % 16 in (0, 1, 15) or p[0] in (lo, hi) or p[1] in (lo, hi)]
        rng.shuffle(keep)
        pairs = keep[:3000]
    return pairs


def run(tier):
    rep = vlib.Report("C12", tier)
    rng = random.Random(vlib.seed())
    g = rel.gen("GenArith", {}, "C12-gen", timeout=600)
    rep.add_tlc(g, "GEN operand sets per integer type (8-bit: all values; wider: boundary sets)")
    types = [p for p in g.printed if "ty" in p]
    cases, meta = [], {}
    lines = []
    for t in types:
        ty, w, s = t["ty"]["n"], t["ty"]["w"], t["ty"]["s"]
        vals = sorted(dec(v) for v in t["vals"])
        lo, hi = rng_of(w, s)
        pairs = plan_batches(ty, w, s, vals, tier, rng)
        for op, sym in list(OPS.items()) + [("divrem", None)]:
            def fails(a, b):
                if op == "divrem":
                    return b == 0 or (s and a == lo and b == -1)
                r = a + b if op == "add" else a - b if op == "sub" else a * b
                return not (lo <= r <= hi)
            good = [p for p in pairs if not fails(*p)]
            bad = [p for p in pairs if fails(*p)]
            if tier == "quick":
                rng.shuffle(bad)
                bad = bad[:12]
            expr = f"a {sym} b" if sym else "a / b, a % b"
            # bulk: one statement for all value-expected pairs, executed over a table (column path)
            for i in range(0, len(good), 4000):
                chunk = good[i:i + 4000]
                rows = ", ".join(f"({lit(a, ty)}, {lit(b, ty)})" for a, b in chunk)
                steps = [{"sql": f"CREATE TEMP TABLE args (a {ty}, b {ty})"}, {"sql": f"INSERT INTO args VALUES {rows}"},
                         {"sql": f"DESCRIBE SELECT {expr} FROM args"}, {"sql": f"SELECT a, b, {expr} FROM args"}]
                cid = len(cases)
                cases.append({"id": cid, "rt": {"kind": "threaded", "threads": 2}, "steps": steps, "timeout": 120})
                meta[cid] = ("bulk", ty, w, s, op, chunk)
            # individually: every error-expected pair, as a folded constant and over a one-row table
            for a, b in bad:
                cexpr = (f"{lit(a, ty)} {sym} {lit(b, ty)}" if sym else f"{lit(a, ty)} / {lit(b, ty)}, {lit(a, ty)} % {lit(b, ty)}")
                steps = [{"sql": f"CREATE TEMP TABLE args (a {ty}, b {ty})"}, {"sql": f"INSERT INTO args VALUES ({lit(a, ty)}, {lit(b, ty)})"},
                         {"sql": f"DESCRIBE SELECT {expr} FROM args"}, {"sql": f"SELECT {cexpr}"}, {"sql": "SELECT 1"},
                         {"sql": f"SELECT a, b, {expr} FROM args"}]
                cid = len(cases)
                cases.append({"id": cid, "rt": {"kind": "threaded", "threads": 2}, "steps": steps, "timeout": 30})
                meta[cid] = ("single", ty, w, s, op, [(a, b)])
        # unary minus over the whole operand set
        rows = ", ".join(f"({lit(a, ty)}, {lit(0, ty)})" for a in vals if not (s and a == lo) and s)
        if rows:
            cid = len(cases)
            cases.append({"id": cid, "rt": {"kind": "threaded", "threads": 2}, "timeout": 60,
                          "steps": [{"sql": f"CREATE TEMP TABLE args (a {ty}, b {ty})"}, {"sql": f"INSERT INTO args VALUES {rows}"},
                                    {"sql": "DESCRIBE SELECT -a FROM args"}, {"sql": "SELECT a, b, -a FROM args"}]})
            meta[cid] = ("bulk", ty, w, s, "neg", [(a, 0) for a in vals if not (s and a == lo)])
        if s:
            cid = len(cases)
            cases.append({"id": cid, "rt": {"kind": "threaded", "threads": 2}, "timeout": 30,
                          "steps": [{"sql": f"CREATE TEMP TABLE args (a {ty}, b {ty})"}, {"sql": f"INSERT INTO args VALUES ({lit(lo, ty)}, {lit(0, ty)})"},
                                    {"sql": "DESCRIBE SELECT -a FROM args"}, {"sql": f"SELECT -{lit(lo, ty)}"}, {"sql": "SELECT 1"},
                                    {"sql": "SELECT a, b, -a FROM args"}]})
            meta[cid] = ("single", ty, w, s, "neg", [(lo, 0)])
        # SUM: exact in the announced type or an error
        for name, col in (("sum_small", [1, 2, 3, -4 if s else 4]), ("sum_overflow", [hi, 1]), ("sum_cancel", [hi, lo, hi] if s else [hi, 0, 1])):
            rows = ", ".join(f"({lit(a, ty)}, {lit(0, ty)})" for a in col)
            cid = len(cases)
            cases.append({"id": cid, "rt": {"kind": "threaded", "threads": 2}, "timeout": 30,
                          "steps": [{"sql": f"CREATE TEMP TABLE args (a {ty}, b {ty})"}, {"sql": f"INSERT INTO args VALUES {rows}"},
                                    {"sql": "DESCRIBE SELECT sum(a) FROM args"}, {"sql": "SELECT sum(a) FROM args"}]})
            meta[cid] = ("sum", ty, w, s, name, col)
    res = vlib.Driver(nworkers=14, case_timeout=120).run(cases)

    def rty_of(step):
        try:
            return TYPEINFO[step[-1]["rows"][0][1]]
        except Exception:
            return None

    def outrec(o, idx=None, row=None):
        k = o.get("outcome")
        if k == "rows":
            v = val_json(row[idx]) if row is not None else None
            if v is None:
                return {"k": "null", "v": enc(0)}
            return {"k": "val", "v": enc(v)}
        if k == "error":
            return {"k": "err", "v": enc(0)}
        return {"k": k or "missing", "v": enc(0)}

    info = {}
    for c, r in zip(cases, res):
        kind, ty, w, s, op, data = meta[c["id"]]
        dead = r is None or "steps" not in r
        died = {"outcome": "abort" if (r or {}).get("abort") else "timeout" if (r or {}).get("timeout") else "fatal",
                "msg": " || ".join(p for p in (r or {}).get("panic", []) if p)} if dead else None
        if dead:
            # cannot know the announced type: assume the operand type (what DESCRIBE reports on the unchanged tree)
            rty = (w, s)
            steps = None
        else:
            steps = r["steps"]
            rty = rty_of(steps[2]) or (w, s)
            if steps[1][-1].get("outcome") != "rows":
                died = {"outcome": "setup-failed", "msg": steps[1][-1].get("msg", "")[:200]}
        R = {"w": rty[0], "s": rty[1]}

        def add_line(rec, what, a, b, o):
            rec["id"] = len(lines)
            for f, dflt in (("a", enc(0)), ("b", enc(0)), ("out", {"k": "none", "v": enc(0)}), ("outq", {"k": "none", "v": enc(0)}),
                            ("outr", {"k": "none", "v": enc(0)}), ("vs", []), ("op", "")):
                rec.setdefault(f, dflt)
            rec["rty"] = R
            lines.append(rec)
            info[rec["id"]] = {"type": ty, "op": op, "context": what, "a": a, "b": b, "obs": {k: v for k, v in (o or {}).items() if k != "rows"}}
        if kind == "sum":
            o = died or steps[3][-1]
            if not died and rty_of(steps[2]) is None:
                # SUM announced with a non-integer type (e.g. Float64 for UBIGINT): outside integer exactness
                rep.cov["families"].setdefault("sum_non_integer_type", []).append({"type": ty, "announced": steps[2][-1].get("rows")})
                continue
            row = o["rows"][0] if o.get("outcome") == "rows" and o["rows"] else None
            add_line({"kind": "sum", "vs": [enc(v) for v in data], "out": outrec(o, 0, row)}, "sum:" + op, data, None, o)
            continue
        if kind == "bulk":
            o = died or steps[3][-1]
            byab = {}
            if o.get("outcome") == "rows":
                for row in o["rows"]:
                    byab[(val_json(row[0]), val_json(row[1]))] = row
            for a, b in data:
                row = byab.get((a, b))
                oo = o if (row is not None or o.get("outcome") != "rows") else {"outcome": "row-missing"}
                if op == "divrem":
                    add_line({"kind": "divrem", "a": enc(a), "b": enc(b), "outq": outrec(oo, 2, row), "outr": outrec(oo, 3, row)}, "column", a, b, oo)
                else:
                    add_line({"kind": "simple", "op": op, "a": enc(a), "b": enc(b), "out": outrec(oo, 2, row)}, "column", a, b, oo)
            continue
        # single: constant-folded (step 3) and one-row column (last step)
        a, b = data[0]
        for what, si in (("constant", 3), ("column", len(c["steps"]) - 1)):
            o = died or steps[si][-1]
            row = o["rows"][0] if o.get("outcome") == "rows" and o["rows"] else None
            base = 0 if what == "constant" else 2
            if op == "divrem":
                add_line({"kind": "divrem", "a": enc(a), "b": enc(b), "outq": outrec(o, base, row), "outr": outrec(o, base + 1, row)}, what, a, b, o)
            else:
                add_line({"kind": "simple", "op": op, "a": enc(a), "b": enc(b), "out": outrec(o, base, row)}, what, a, b, o)
    rep.cov["evaluations"] = len(lines)
    wd = vlib.workdir("C12-tv")
    chunks = [lines[i:i + 12000] for i in range(0, len(lines), 12000)]
    mism = []

    def one(ci):
        path = os.path.join(wd, f"trace{ci}.ndjson")
        vlib.write_ndjson(path, chunks[ci])
        return ci, vlib.tlc("TraceArith", "SPECIFICATION TSpec\nPOSTCONDITION Accepted\nCHECK_DEADLOCK FALSE\n", f"C12-tv{ci}",
                            env={"TRACE": path}, workers=1, timeout=1700, deque=True, heap="3g")
    with concurrent.futures.ThreadPoolExecutor(max_workers=6) as ex:
        for ci, r in ex.map(one, range(len(chunks))):
            if r.error or not r.ok:
                rep.tool_error(f"TraceArith chunk {ci}: {r.error or r.violated}: {r.out[-800:]}")
                continue
            rep.add_tlc(r, f"TV arithmetic#{ci}", trace_lines=len(chunks[ci]))
            mism += [p for p in r.printed if isinstance(p, dict) and "mismatch" in p]
    nontrivial = set()
    for ln in lines:
        i = info[ln["id"]]
        if ln["kind"] != "sum" and (ln["out"]["k"] == "val" or ln["outq"]["k"] == "val"):
            nontrivial.add((i["type"], i["op"], i["a"], i["b"]))
    for m in mism:
        i = info[m["mismatch"]]
        exp = m["exp"]
        cls = "overflow" if exp["k"] == "err" else "value" if exp["k"] == "val" else "division"
        if i["op"] == "divrem" and i["b"] == -1 and i["a"] is not None and i["a"] < 0 and ((-i["a"]) & (-i["a"] - 1)) == 0 and i["obs"].get("outcome") != "rows":
            cls = "overflow"
        if i["op"] == "divrem" and i["b"] == 0:
            cls = "division-by-zero"
        obs = i["obs"].get("outcome")
        sig = {"family": "int_arith", "op": i["op"] if not i["context"].startswith("sum") else "sum", "class": cls,
               "context": i["context"].split(":")[0], "observed": obs}
        rep.mismatch(sig, dict(i, expected=(dec(exp["v"]) if exp["k"] == "val" else exp["k"])))
    rep.cov["distinct_nontrivial"] = len(nontrivial)
    rep.cov["samples"] = [dict(info[l["id"]], out=l["out"]["k"]) for l in lines[:3]]
    rep.cov["rule"] = ("operand sets from GenArith.tla (8-bit: all 256 values, so all pairs in the thorough tier; 16/32/64-bit: "
                       "boundary sets) x {+,-,*,/ and %,unary minus} x {signed, unsigned}, each value-expected pair evaluated "
                       "over a table column (bulk), each error-expected pair individually as a folded constant and over a "
                       "one-row table, plus SUM; TraceArith.tla judges every tuple on BigInt terms: exact value in the "
                       "announced type, quotient/remainder verified by DivRel, otherwise an error; non-trivial = a value "
                       "was returned; distinct by (type, op, a, b)")
    rep.cov["exhaustive"] = tier == "thorough"
    rep.assumptions += ["the driver's batching plan (which pairs share a statement) is not part of the judgement",
                        "decimal arithmetic: see evidence families (growth item)"]
    return rep.finish()


def replay(path):
    import c14
    return c14.replay(path)
