"""C13 - casts are exact-or-error and text round-trips every value."""
import json, random, os, struct, concurrent.futures
from fractions import Fraction
import vlib
from bigint import enc, dec

INTS = [("TINYINT", 8, True), ("UTINYINT", 8, False), ("SMALLINT", 16, True), ("USMALLINT", 16, False),
        ("INT", 32, True), ("UINT", 32, False), ("BIGINT", 64, True), ("UBIGINT", 64, False)]


def rng_of(w, s):
    return (-(1 << (w - 1)), (1 << (w - 1)) - 1) if s else (0, (1 << w) - 1)


def lit(v, ty):
    return f"CAST({v} AS {ty})" if v >= 0 else f"CAST(({v}) AS {ty})"


def boundary(w, s, exhaustive):
    lo, hi = rng_of(w, s)
    if exhaustive and w <= 16:
        return list(range(lo, hi + 1))
    c = {lo, lo + 1, -129, -128, -127, -1, 0, 1, 127, 128, 255, 256, 32767, 32768, 65535, 65536, 2147483647, 2147483648,
         4294967295, 4294967296, 9223372036854775807, hi - 1, hi, 10 ** (w // 4), -(10 ** (w // 4))}
    return sorted(v for v in c if lo <= v <= hi)


def dec_lit(u, p, s):
    sign = "-" if u < 0 else ""
    d = str(abs(u)).rjust(s + 1, "0")
    txt = sign + (d[:-s] + "." + d[-s:] if s else d)
    return f"CAST('{txt}' AS DECIMAL({p},{s}))"


PRE = []


def run(tier):
    rep = vlib.Report("C13", tier)
    rng = random.Random(vlib.seed())
    exhaustive = tier == "thorough"
    cases = []   # each: dict(kind=..., sql=..., plus operands for the judge)

    def add(kind, sql, **kw):
        kw.update(kind=kind, sql=sql)
        cases.append(kw)
    # int -> int: all (source, target) pairs
    for sn, sw, ss in INTS:
        vals = boundary(sw, ss, exhaustive)
        if tier == "quick" and len(vals) > 40:
            vals = sorted(set(rng.sample(vals, 30) + boundary(sw, ss, False)))
        for tn, tw, ts in INTS:
            if tn == sn:
                continue
            for v in vals:
                add("int_int", f"SELECT CAST({lit(v, sn)} AS {tn})", v=v, ty={"w": tw, "s": ts})
        # int -> text -> int round trip
        for v in vals[:: max(1, len(vals) // 40)] + [vals[0], vals[-1]]:
            add("int_text", f"SELECT CAST({lit(v, sn)} AS TEXT), CAST(CAST({lit(v, sn)} AS TEXT) AS {sn})", v=v)
        # int -> decimal
        for (p, s) in [(3, 0), (5, 2), (18, 3), (18, 18), (38, 0), (38, 10), (10, 9), (2, 0), (4, 0), (4, 2), (6, 2), (9, 0), (11, 2), (18, 0), (19, 0), (20, 1)]:
            for v in boundary(sw, ss, False):
                add("int_dec", f"SELECT CAST({lit(v, sn)} AS DECIMAL({p},{s}))", v=v, p=p, s=s)
    # decimal -> decimal / int / text
    decs = []
    for (p, s) in [(3, 2), (5, 2), (9, 4), (18, 3), (18, 9), (38, 10), (20, 1), (38, 37)]:
        top = 10 ** p - 1
        for u in {0, 1, -1, 5, -5, 15, -15, 25, -25, 49, 50, 51, -49, -50, -51, 95, -95, 99, 149, 150, -150, 995, -995, 4999, 5000, 5001,
                  top, -top, top - 1, top // 2, -(top // 2), 10 ** (p - 1), 5 * 10 ** (s - 1) if s else 5, -(5 * 10 ** (s - 1)) if s else -5,
                  10 ** s // 2 + 10 ** s, -(10 ** s // 2 + 10 ** s)}:
            if abs(u) <= top:
                decs.append((u, p, s))
    for (u, p, s) in decs:
        for (p2, s2) in [(3, 0), (3, 1), (5, 2), (9, 0), (18, 3), (18, 0), (38, 10), (38, 0), (19, 18)]:
            add("dec_dec", f"SELECT CAST({dec_lit(u, p, s)} AS DECIMAL({p2},{s2}))", v=u, s1=s, p=p2, s=s2)
        for tn, tw, ts in INTS:
            add("dec_int", f"SELECT CAST({dec_lit(u, p, s)} AS {tn})", v=u, s1=s, ty={"w": tw, "s": ts})
        add("dec_text", f"SELECT CAST({dec_lit(u, p, s)} AS TEXT), CAST(CAST({dec_lit(u, p, s)} AS TEXT) AS DECIMAL({p},{s}))", v=u, s1=s)
    # cast chains: the nested form must mean the composition of the single casts (the planner may flatten chains)
    for sn, sw, ss in INTS:
        for t1n, t1w, t1s in INTS:
            for t2n, t2w, t2s in INTS:
                if t1w < sw and t2w >= t1w and (tier == "thorough" or (sw + t1w + t2w) % 3 == 0):
                    for v in boundary(sw, ss, False):
                        add("int_chain", f"SELECT CAST(CAST({lit(v, sn)} AS {t1n}) AS {t2n})", v=v, ty1={"w": t1w, "s": t1s}, ty={"w": t2w, "s": t2s})
    for (u, p, s) in decs[:: (1 if tier == "thorough" else 3)]:
        for (p2, s2, p3, s3) in [(10, 1, 38, 4), (3, 0, 38, 2), (5, 2, 18, 4), (18, 0, 38, 10), (9, 1, 9, 3), (20, 1, 38, 1)]:
            inner = f"CAST({dec_lit(u, p, s)} AS DECIMAL({p2},{s2}))"
            add("dec_chain", f"SELECT {inner}, 1", chain_first=True, v=u, s1=s, p=p2, s=s2)
            add("dec_chain", f"SELECT CAST({inner} AS DECIMAL({p3},{s3}))", chain_second=True, s1=s2, p=p3, s=s3)
    # the same conversions over table columns (nothing is folded at plan time; the innermost expression is a typed column)
    COLS = [("d102", 10, 2, [150, -135, 2225, 9999999999, -5, 250, -250, 12345, 0]), ("d184", 18, 4, [15000, -13500, 999999999999999999, 25000, -25000, 1, -1]),
            ("d52", 5, 2, [125, -125, 99999, -99999, 995, 5]), ("d3010", 30, 10, [15000000000, -25000000000, 10 ** 30 - 1, 12345678901, -5])]
    ICOLS = [("i8", "TINYINT", 8, [-128, -1, 0, 100, 127]), ("i32", "INT", 32, [-2147483648, -129, 0, 128, 300, 2147483647]),
             ("i64", "BIGINT", 64, [-9223372036854775808, -32769, 0, 255, 256, 70000, 9223372036854775807])]
    nrow = max(len(c[3]) for c in COLS + ICOLS)
    global PRE
    PRE = ["CREATE TEMP TABLE cc (k INT, " + ", ".join(f"{n} DECIMAL({p},{s_})" for n, p, s_, _ in COLS) + ", " +
           ", ".join(f"{n} {t}" for n, t, _, _ in ICOLS) + ")"]
    for r_ in range(nrow):
        vals_ = [str(r_)] + [dec_lit(c[3][r_], c[1], c[2]) if r_ < len(c[3]) else "NULL" for c in COLS] + \
                [lit(c[3][r_], c[1]) if r_ < len(c[3]) else "NULL" for c in ICOLS]
        PRE.append("INSERT INTO cc VALUES (" + ", ".join(vals_) + ")")
    for n, p, s_, vs in COLS:
        for r_, u in enumerate(vs):
            for (p2, s2) in [(12, 4), (6, 1), (3, 0), (18, 0), (38, 10), (38, 4), (20, 1), (p, s_)]:
                add("dec_dec", f"SELECT CAST({n} AS DECIMAL({p2},{s2})) FROM cc WHERE k = {r_}", v=u, s1=s_, p=p2, s=s2)
            for (p2, s2, p3, s3) in [(10, 1, 38, 4), (3, 0, 38, 2), (6, 1, 18, 4), (18, 0, 38, 10)]:
                inner = f"CAST({n} AS DECIMAL({p2},{s2}))"
                add("dec_chain", f"SELECT {inner}, 1 FROM cc WHERE k = {r_}", chain_first=True, v=u, s1=s_, p=p2, s=s2)
                add("dec_chain", f"SELECT CAST({inner} AS DECIMAL({p3},{s3})) FROM cc WHERE k = {r_}", chain_second=True, s1=s2, p=p3, s=s3)
                # an implicit widening on top of an explicit narrowing cast
                add("dec_chain", f"SELECT {inner}, 1 FROM cc WHERE k = {r_}", chain_first=True, v=u, s1=s_, p=p2, s=s2)
                add("dec_chain", f"SELECT {inner} + CAST(0 AS DECIMAL(38,{s2})) FROM cc WHERE k = {r_}", chain_second=True, s1=s2, p=38, s=s2)
            for tn, tw, ts in INTS[::2]:
                add("dec_int", f"SELECT CAST({n} AS {tn}) FROM cc WHERE k = {r_}", v=u, s1=s_, ty={"w": tw, "s": ts})
    for n, t, w_, vs in ICOLS:
        for r_, v in enumerate(vs):
            for tn, tw, ts in INTS:
                if tn != t:
                    add("int_int", f"SELECT CAST({n} AS {tn}) FROM cc WHERE k = {r_}", v=v, ty={"w": tw, "s": ts})
            for t1n, t1w, t1s in INTS:
                if t1w < w_:
                    add("int_chain", f"SELECT CAST(CAST({n} AS {t1n}) AS BIGINT) FROM cc WHERE k = {r_}", v=v, ty1={"w": t1w, "s": t1s}, ty={"w": 64, "s": True})
            for (p, s_) in [(2, 0), (4, 0), (9, 0), (18, 0), (19, 0), (5, 2), (38, 10)]:
                add("int_dec", f"SELECT CAST({n} AS DECIMAL({p},{s_})) FROM cc WHERE k = {r_}", v=v, p=p, s=s_)
    # float -> int (truncation)
    for x in [0.0, -0.0, 0.5, -0.5, 0.999, 1.5, -1.5, 2.5, -2.5, 126.9, 127.0, 127.5, 128.0, -128.0, -128.9, -129.0, 255.9, 256.0,
              32767.99, 32768.0, 2147483647.0, 2147483648.0, -2147483648.0, -2147483649.0, 9.223372036854775e18, 9.3e18, 1e19,
              -9.3e18, 1.8446744073709552e19, 1.7976931348623157e308, 1e-10, 65535.5, 65536.0, -0.9999]:
        fr = Fraction(x)
        k = fr.denominator.bit_length() - 1
        for tn, tw, ts in INTS:
            add("float_int", f"SELECT CAST(CAST('{x!r}' AS DOUBLE) AS {tn})", v=fr.numerator, s1=k, ty={"w": tw, "s": ts})
    # text -> int with surrounding garbage
    for t in ["0", "7", "-7", "+7", " 7", "7 ", " 7 ", "007", "-0", "7a", "a7", "", " ", "-", "+", "--7", "7-", "1 2", "1e3", "1.0", "1.5",
              "0x10", "127", "128", "-128", "-129", "255", "256", "32767", "32768", "65535", "65536", "2147483647", "2147483648",
              "-2147483648", "-2147483649", "4294967295", "4294967296", "9223372036854775807", "9223372036854775808",
              "-9223372036854775808", "-9223372036854775809", "18446744073709551615", "18446744073709551616", "1_000", "١٢٣", "NaN", "null"]:
        for tn, tw, ts in INTS:
            q = t.replace("'", "''")
            add("text_int", f"SELECT CAST('{q}' AS {tn})", txt=[ord(c) for c in t], ty={"w": tw, "s": ts})
    # text -> decimal
    for t in ["0", "1", "-1", "12.3", "12.34", "9.99", "9.994", "9.995", "9.999", "-9.995", "0.005", "-0.005", "0.0049", "99.9", "99.95", "100",
              "999", "999.4", "999.5", "-999.5", "0.5", "1.5", "2.5", "-2.5", "00012.30", "12.300000000000000000000000001", "1e2", "1E-1",
              " 1.5", "1.5 ", "+1.5", ".5", "1.", ".", "", "-", "abc", "1.2.3", "1,5", "12345678901234567890123456789012345678",
              "123456789012345678901234567890123456789", "0.00000000000000000000000000000000000001", "--1", "1-", "NaN", "Infinity"]:
        for (p, s_) in [(3, 2), (3, 0), (5, 2), (18, 3), (38, 10), (38, 0), (4, 4)]:
            q = t.replace("'", "''")
            add("text_dec", f"SELECT CAST('{q}' AS DECIMAL({p},{s_}))", txt=[ord(c) for c in t], p=p, s=s_)
    # dates
    for (y, m, d) in [(1970, 1, 1), (1969, 12, 31), (2000, 2, 29), (1900, 2, 29), (1900, 2, 28), (2024, 2, 29), (2023, 2, 29), (1, 1, 1),
                      (9999, 12, 31), (2021, 4, 31), (2021, 13, 1), (2021, 0, 10), (2021, 6, 0), (1600, 2, 29), (1582, 10, 10), (2038, 1, 19),
                      (1999, 12, 31), (2000, 1, 1), (2100, 2, 29), (2400, 2, 29)]:
        txt = f"{y:04d}-{m:02d}-{d:02d}"
        add("text_date", f"SELECT CAST('{txt}' AS DATE)", y=y, m=m, d=d)
        add("date_text", f"SELECT CAST(CAST('{txt}' AS DATE) AS TEXT), CAST(CAST(CAST('{txt}' AS DATE) AS TEXT) AS DATE), CAST('{txt}' AS DATE)", y=y, m=m, d=d)
    # execute: sessions of 150 statements
    per = 150
    vcases = []
    for i in range(0, len(cases), per):
        vcases.append({"id": len(vcases), "rt": {"kind": "threaded", "threads": 1},
                       "steps": [{"sql": q_} for q_ in PRE] + [{"sql": c["sql"]} for c in cases[i:i + per]], "timeout": 120})
    res = vlib.Driver(nworkers=14, case_timeout=120).run(vcases)
    obs = []
    for vc, r in zip(vcases, res):
        n = len(vc["steps"])
        if r is None or "steps" not in r:
            # isolate
            singles = [{"id": j, "rt": {"kind": "threaded", "threads": 1}, "steps": [{"sql": q_} for q_ in PRE] + [s], "timeout": 20}
                       for j, s in enumerate(vc["steps"][len(PRE):])]
            rr = vlib.Driver(nworkers=14, case_timeout=20).run(singles)
            for x in rr:
                if x is None or "steps" not in x:
                    obs.append({"outcome": "abort" if (x or {}).get("abort") else "timeout", "msg": " || ".join(p for p in (x or {}).get("panic", []) if p)})
                else:
                    obs.append(x["steps"][-1][-1])
        else:
            obs += [s[-1] for s in r["steps"][len(PRE):]]

    def num(v):
        if v is None or isinstance(v, bool):
            return None
        if isinstance(v, int):
            return v
        if isinstance(v, dict):
            if "big" in v:
                return int(v["big"])
            if "dec" in v:
                return int(v["dec"][0])
            if "date32" in v:
                return v["date32"]
        return None

    def outrec(o, idx=0):
        k = o.get("outcome")
        if k == "rows":
            v = num(o["rows"][0][idx]) if o["rows"] else None
            return {"k": "val", "v": enc(v)} if v is not None else {"k": "null", "v": enc(0)}
        if k == "error" and "cannot handle source type" in (o.get("msg") or ""):
            return {"k": "unsupported", "v": enc(0)}
        return {"k": "err" if k == "error" else (k or "missing"), "v": enc(0)}
    lines = []
    for i, (c, o) in enumerate(zip(cases, obs)):
        ln = {"id": i, "kind": c["kind"], "v": enc(c.get("v", 0)), "ty": c.get("ty", {"w": 8, "s": True}), "ty1": c.get("ty1", {"w": 8, "s": True}),
              "mid": "", "p": c.get("p", 0),
              "s": c.get("s", 0), "s1": c.get("s1", 0), "txt": c.get("txt", []), "y": c.get("y", 0), "m": c.get("m", 0), "d": c.get("d", 0),
              "out": {"k": "none", "v": enc(0)}, "rt": {"k": "none", "v": enc(0)}}
        if c["kind"] in ("int_text", "dec_text"):
            ln["out"] = {"k": "val" if o.get("outcome") == "rows" else ("err" if o.get("outcome") == "error" else o.get("outcome")), "v": enc(0)}
            if o.get("outcome") == "rows" and isinstance(o["rows"][0][0], str):
                ln["txt"] = [ord(ch) for ch in o["rows"][0][0]]
                ln["rt"] = outrec(o, 1)
        elif c["kind"] == "date_text":
            ln["out"] = {"k": "val" if o.get("outcome") == "rows" else "err", "v": enc(0)}
            if o.get("outcome") == "rows":
                ln["rt"] = outrec(o, 1)
                ln["v"] = enc(num(o["rows"][0][2]) or 0)
            else:
                ln["kind"] = "text_date"   # an invalid date must fail both ways
                ln["out"] = outrec(o)
        elif c.get("chain_first"):
            ln["kind"] = "dec_dec"          # the first cast alone is an ordinary decimal -> decimal observation
            ln["out"] = outrec(o)
        elif c.get("chain_second"):
            first = outrec(obs[i - 1])
            ln["out"] = outrec(o)
            if first["k"] == "val":
                ln["v"] = first["v"]
            elif first["k"] == "err":
                ln["mid"] = "err"
            else:
                ln["kind"], ln["out"] = "dec_dec", {"k": "unsupported", "v": enc(0)}     # first step crashed: reported on its own line
        else:
            ln["out"] = outrec(o)
        lines.append(ln)
    rep.cov["evaluations"] = len(lines)
    wd = vlib.workdir("C13-tv")
    chunks = [lines[i:i + 6000] for i in range(0, len(lines), 6000)]
    mism = []

    def one(ci):
        path = os.path.join(wd, f"trace{ci}.ndjson")
        vlib.write_ndjson(path, chunks[ci])
        return ci, vlib.tlc("TraceCast", "SPECIFICATION TSpec\nPOSTCONDITION Accepted\nCHECK_DEADLOCK FALSE\n", f"C13-tv{ci}",
                            env={"TRACE": path}, workers=1, timeout=1700, deque=True, heap="3g")
    with concurrent.futures.ThreadPoolExecutor(max_workers=6) as ex:
        for ci, r in ex.map(one, range(len(chunks))):
            if r.error or not r.ok:
                rep.tool_error(f"TraceCast chunk {ci}: {r.error or r.violated}: {r.out[-800:]}")
                continue
            rep.add_tlc(r, f"TV casts#{ci}", trace_lines=len(chunks[ci]))
            mism += [p for p in r.printed if isinstance(p, dict) and "mismatch" in p]
    for m in mism:
        c, o, ln = cases[m["mismatch"]], obs[m["mismatch"]], lines[m["mismatch"]]
        tgt = c["sql"].rsplit(" AS ", 1)[-1].rstrip(")") if c["kind"] not in ("int_text", "dec_text", "date_text") else "TEXT"
        sig = {"family": "cast", "kind": ln["kind"], "observed": ln["out"]["k"], "target": vlib.re.sub(r"\d+", "#", tgt), "why": m.get("why", "")}
        if o.get("outcome") in ("panic", "abort"):
            sig["msg"] = vlib.re.sub(r"\d+", "#", o.get("msg", ""))[:140]
        rep.mismatch(sig, {"sql": c["sql"], "observed": {k: v for k, v in o.items()}, "operands": {k: v for k, v in c.items() if k not in ("sql",)}})
    rep.cov["distinct_nontrivial"] = sum(1 for l in lines if l["out"]["k"] == "val")
    rep.cov["kinds"] = {k: sum(1 for c in cases if c["kind"] == k) for k in sorted({c["kind"] for c in cases})}
    rep.cov["samples"] = [{"sql": cases[i]["sql"], "out": lines[i]["out"]["k"]} for i in (0, len(cases) // 2, len(cases) - 1)]
    rep.cov["rule"] = ("casts between all integer type pairs (8/16-bit sources exhaustively in the thorough tier, boundary sets "
                       "otherwise), integer<->decimal, decimal->decimal with rounding (halfway cases, maximum precision), "
                       "float->integer truncation, text->integer with surrounding garbage, value->text->value round trips, "
                       "dates incl. leap days / invalid dates; judged by TraceCast.tla on BigInt terms (rounded quotients "
                       "are verified relations, not computed); non-trivial = the cast returned a value")
    rep.cov["exhaustive"] = False
    return rep.finish()


def replay(path):
    import c14
    return c14.replay(path)
