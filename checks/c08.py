"""C08 - ORDER BY yields a correctly sorted permutation; LIMIT/OFFSET the exact slice."""
import vlib, rel
import scale

CFGS = [{"partitions": 1}, {"partitions": 3, "batch_size": 2, "_chunk": 2, "threads": 4},
        {"partitions": 8, "threads": 8}, {"partitions": 2, "batch_size": 3, "_chunk": 3},
        {"partitions": 3, "threads": 4, "_style": {"split_inserts": True, "longtext": True}},
        {"partitions": 2, "_style": {"split_inserts": True, "longtext": True}, "det": {"fallback": "rand", "seed": 5, "maxk": 0}},
        {"partitions": 4, "batch_size": 2, "_chunk": 2, "det": {"fallback": "rand", "seed": 11, "maxk": 2}},
        {"partitions": 2, "_style": {"split_inserts": True, "nultext": True}}, {"partitions": 1, "_style": {"nultext": True}}]


def big_inputs(run_, queries, rng):
    """inputs spanning many sort blocks and partitions"""
    n = 300
    vals = list(range(n))
    rng.shuffle(vals)
    db = rel.abs_db([[[v % 97], [v % 5] if v % 11 else []] for v in vals], [[[1], [1]]],
                    [[[v % 50], [v % 3]] for v in vals[:100]])
    for qi, p in enumerate(queries):
        t = p["tag"]
        if t[0] in ("sort", "topn", "topn2", "topn_nohint") and t[1] == "A" and qi % 3 == 0:
            for c in ({"partitions": 1, "batch_size": 16, "_chunk": 16}, {"partitions": 4, "batch_size": 16, "_chunk": 16, "threads": 4},
                      {"partitions": 8, "threads": 8}):
                c = dict(c)
                chunk = c.pop("_chunk", None)
                run_.add("/".join(t) + "@big", p["q"], db, c, extra={"knobs": {"table_chunk_capacity": chunk}} if chunk else None)


def text_inputs(run_, queries, rng):
    """text-key sorts over a table with many ties on the integer key and every text value, always under the text styles
    that make the full-value comparison and the multi-run merge matter (long shared prefixes, NUL padding, one run per
    inserted row group)"""
    rows = [[[a], [t]] if (a + t) % 7 else [[a], []] for a in (0, 1, 1, 2) for t in range(8)]
    rng.shuffle(rows)
    db = rel.abs_db([[[1], [1]]], [[[1], [1]]], rows)
    styles = [{"split_inserts": True, "longtext": True}, {"split_inserts": True, "nultext": True}, {"longtext": True}]
    for p in queries:
        t = p["tag"]
        if t[1] == "S":
            for si, st in enumerate(styles):
                for c in ({"partitions": 1}, {"partitions": 3, "threads": 4}, {"partitions": 2, "batch_size": 4, "_chunk": 4}):
                    c = dict(c)
                    chunk = c.pop("_chunk", None)
                    run_.add("/".join(t) + "@text", p["q"], db, c, style=st, extra={"knobs": {"table_chunk_capacity": chunk}} if chunk else None)


def extra(run_, queries, rng):
    big_inputs(run_, queries, rng)
    text_inputs(run_, queries, rng)


def run(tier):
    lims = "{0, 1, 2, 3, 4}" if tier == "quick" else "{0, 1, 2, 3, 4, 16, 17}"
    offs = "{0, 1, 2, 3}" if tier == "quick" else "{0, 1, 2, 3, 16, 17}"
    return rel.run_tagged(
        "C08", tier, "GenSort", {"Lims": lims, "Offs": offs}, "sort",
        dbs_fn=lambda tables, rng: rel.pick_dbs(tables, rng, 8 if tier == "quick" else 8),
        cfgs_fn=lambda rng: CFGS,
        extra_items=extra,
        post=lambda rep, run_: scale.run(rep, tier, ["sort", "sort2"], "C08"),
        nontrivial=lambda it: len(it["obs"]["rows"]) > 1,
        rule=("GenSort.tla queries (ORDER BY with every direction / NULLS FIRST|LAST|default combination, one and two "
              "keys, expression, boolean and text keys, sorted aggregates and joins; ORDER BY + LIMIT/OFFSET for all "
              "(limit, offset) around 0, the batch size and the table size, with and without a reachable limit hint; "
              "LIMIT/OFFSET without ORDER BY) x databases x configurations; judged by SortedBy /\\ BagEq, "
              "SliceOfSorted (ties admit any consistent choice) and SomeSubBag; non-trivial = at least 2 result rows"))


def replay(path):
    import c02
    return c02.replay(path)
