"""C17 - reading a CSV file returns the RFC-4180 records with inferred types."""
import json, random, os, concurrent.futures
from fractions import Fraction
import vlib, sqlgen

DIR = os.path.join(vlib.WORK, "C17-files")


def render(f, repeat=1):
    """abstract file (GenCsv.tla state) -> text. Quote a field when it must be (embedded delimiter, quote, CR/LF)
    or when the file asks for every field to be quoted."""
    d, q = f["delim"], f["quote"]
    eol = "\r\n" if f["eol"] == "crlf" else "\n"

    def field(s, force):
        need = force or any(ch in s for ch in (d, q, "\n", "\r"))
        if s == "" and not force:
            return ""
        return q + s.replace(q, q + q) + q if need else s
    lines = []
    if f["header"]:
        names = ["id", "name", "value"][: len(f["cls"])]
        lines.append(d.join(field(n, False) for n in names))
    for _ in range(repeat):
        for row in f["rows"]:
            lines.append(d.join(field(c, f["allq"] and c != "") for c in row))
    text = eol.join(lines)
    if f["trail"] and lines:
        text += eol
    return text


def cell(v, ty):
    if v is None:
        return ["n"]
    if ty == "Boolean":
        return ["b", 1 if v else 0]
    if ty == "Int64":
        return ["i", v if isinstance(v, int) else int(v["big"])]
    if ty == "Float64":
        fr = Fraction(sqlgen.f64_from_bits(v["f64"])).limit_denominator(10 ** 6)
        return ["f", fr.numerator, fr.denominator]
    if ty == "Utf8":
        return ["t"] + [ord(c) for c in v] if isinstance(v, str) else ["bad"]
    return ["?" + ty]


def obs_of(step):
    o = step[-1] if step else {"outcome": "missing"}
    rec = {"outcome": o.get("outcome"), "gen": True, "names": [], "types": [], "rows": [], "msg": (o.get("msg") or "")[:200]}
    if o.get("outcome") == "rows":
        names = [n for n, _ in o["schema"]]
        types = [t for _, t in o["schema"]]
        gen = all(n == f"column{i}" for i, n in enumerate(names))
        rec.update(gen=gen, names=[[ord(c) for c in n] for n in names], types=types,
                   rows=[[cell(v, t) for v, t in zip(r, types)] for r in o["rows"]])
    return rec


def run(tier):
    rep = vlib.Report("C17", tier)
    rng = random.Random(vlib.seed())
    num, k = (60, 250) if tier == "quick" else (200, 120)
    cfg = f"SPECIFICATION Spec\nINVARIANT Emit\nCHECK_DEADLOCK FALSE\nCONSTANTS MaxRows = 4\n SampleK = {k}\n"
    g = vlib.tlc("GenCsv", cfg, "C17-gen", workers=1, timeout=900, args=["-simulate", f"num={num}", "-depth", "6", "-seed", str(vlib.seed())])
    if g.error:
        raise vlib.ToolError(f"GenCsv: {g.error}")
    rep.add_tlc(g, "GEN abstract CSV files (simulate, sampled)")
    files, seen = [], set()
    for p in g.printed:
        if "rows" in p and p["rows"]:
            key = json.dumps(p, sort_keys=True)
            if key not in seen:
                seen.add(key)
                files.append(p)
    vlib.workdir("C17-files")
    cases, meta = [], {}
    for i, f in enumerate(files):
        # sizes: as generated; and repeated so the file straddles the 4 KiB inference sample
        variants = [(1, {}), (1, {"csv_read_buf_size": 7})]
        if i % (10 if tier == "quick" else 3) == 0:
            rowbytes = max(1, len(render(dict(f, header=False, trail=True))))
            variants.append((4200 // rowbytes + 3, {"csv_read_buf_size": 64}))
        for vi, (rep_n, knobs) in enumerate(variants):
            text = render(f, rep_n)
            if not text.strip("\r\n"):
                continue
            ext = ".tsv" if f["delim"] == "\t" else ".csv"
            path = os.path.join(DIR, f"f{i}_{vi}{ext}")
            with open(path, "w", encoding="utf-8", newline="") as fh:
                fh.write(text)
            for ci, conf in enumerate([{"partitions": 1}, {"partitions": 3, "batch_size": 2}]):
                steps = [{"sql": f"SET partitions = {conf['partitions']}"}]
                if "batch_size" in conf:
                    steps.append({"sql": f"SET batch_size = {conf['batch_size']}"})
                steps.append({"sql": f"SELECT * FROM read_csv('{path}')"})
                cid = len(cases)
                cases.append({"id": cid, "rt": {"kind": "threaded", "threads": 2}, "knobs": knobs, "steps": steps, "timeout": 60})
                meta[cid] = {"file": i, "variant": vi, "conf": ci, "text": text, "path": path, "abstract": f, "knobs": knobs}
    res = vlib.Driver(nworkers=14, case_timeout=60).run(cases)
    lines, lmeta = [], {}
    byfile = {}
    for c, r in zip(cases, res):
        m = meta[c["id"]]
        if r is None or "steps" not in r:
            o = {"outcome": "abort" if (r or {}).get("abort") else "timeout", "gen": True, "names": [], "types": [], "rows": [],
                 "msg": " || ".join(p for p in (r or {}).get("panic", []) if p)[:200]}
        else:
            o = obs_of(r["steps"][-1])
        lid = len(lines)
        lines.append({"id": lid, "text": [ord(ch) for ch in m["text"]], "obs": {k: v for k, v in o.items() if k != "msg"}})
        lmeta[lid] = dict(m, obs=o)
        byfile.setdefault((m["file"], m["text"]), []).append(o)
    # the same text under different read-buffer / batch / partition configurations
    for (fi, text), obs in byfile.items():
        for other in obs[1:]:
            lid = len(lines)
            lines.append({"id": lid, "a": {k: v for k, v in obs[0].items() if k != "msg"}, "b": {k: v for k, v in other.items() if k != "msg"}})
            lmeta[lid] = {"file": fi, "pair": True, "text": text}
    rep.cov["evaluations"] = len(cases)
    wd = vlib.workdir("C17-tv")
    lines.sort(key=lambda l: len(l.get("text", [])))
    chunks, cur, cost = [], [], 0
    for ln in lines:
        c = 50 + len(ln.get("text", [])) * 8
        if cur and cost + c > 400000:
            chunks.append(cur)
            cur, cost = [], 0
        cur.append(ln)
        cost += c
    if cur:
        chunks.append(cur)
    mism = []

    def one(ci):
        path = os.path.join(wd, f"trace{ci}.ndjson")
        vlib.write_ndjson(path, chunks[ci])
        return ci, vlib.tlc("TraceCsv", "SPECIFICATION TSpec\nPOSTCONDITION Accepted\nCHECK_DEADLOCK FALSE\n", f"C17-tv{ci}",
                            env={"TRACE": path}, workers=1, timeout=1700, deque=True, heap="3g")
    with concurrent.futures.ThreadPoolExecutor(max_workers=6) as ex:
        for ci, r in ex.map(one, range(len(chunks))):
            if r.error or not r.ok:
                rep.tool_error(f"TraceCsv chunk {ci}: {r.error or r.violated}: {r.out[-800:]}")
                continue
            rep.add_tlc(r, f"TV csv#{ci}", trace_lines=len(chunks[ci]))
            mism += [p for p in r.printed if isinstance(p, dict) and "mismatch" in p]
    for m in mism:
        x = lmeta[m["mismatch"]]
        if x.get("pair"):
            rep.mismatch({"family": "csv", "why": m["why"]}, {"text": x["text"][:600]})
            continue
        f = x["abstract"]
        o = x["obs"]
        sig = {"family": "csv", "why": m["why"], "observed": o["outcome"], "delim": f["delim"], "quote": f["quote"], "header": f["header"],
               "eol": f["eol"], "one_column": len(f["cls"]) == 1, "classes": "".join(sorted(set(f["cls"]))),
               "msg": vlib.re.sub(r"\d+", "#", o.get("msg", ""))[:100]}
        rep.mismatch(sig, {"text": x["text"][:800], "path": x["path"], "knobs": x["knobs"], "observed": {k: (v if k != "rows" else v[:6]) for k, v in o.items()}})
    rep.cov["distinct_nontrivial"] = len({(lmeta[l["id"]].get("file"), lmeta[l["id"]].get("variant")) for l in lines if "obs" in l and l["obs"]["outcome"] == "rows" and l["obs"]["rows"]})
    rep.cov["samples"] = [{"text": lmeta[i]["text"][:200], "observed_types": lmeta[i]["obs"]["types"]} for i in list(lmeta)[:3] if "obs" in lmeta[i]]
    rep.cov["rule"] = ("abstract files from GenCsv.tla (delimiter , | ; tab x quote \" ' x header x LF/CRLF x trailing newline x "
                       "column classes bool/int/float/text x vocabulary incl. empty, embedded delimiter/quote/newline, multi-byte) "
                       "rendered to text, read with read_csv under read-buffer sizes 7 / 64 bytes / default, batch sizes and "
                       "partition counts, also repeated past the 4 KiB inference sample; TraceCsv.tla requires SOME candidate "
                       "dialect and header decision under which the RFC-4180 records, NULLs, narrowest column types and typed "
                       "values equal the observation, and equal results across configurations; non-trivial = rows returned")
    rep.cov["exhaustive"] = False
    rep.assumptions += ["render() (abstract file -> text) only affects which texts are tried; the judge works on the final text"]
    return rep.finish()


def replay(path):
    import c14
    return c14.replay(path)
