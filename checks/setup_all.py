import os, glob, vlib


def main():
    vlib.build_harness()
    bad = 0
    for f in sorted(glob.glob(os.path.join(vlib.SPEC, "*.tla"))):
        m = os.path.basename(f)[:-4]
        ok, out = vlib.sany(m)
        if not ok:
            print(f"SANY failed for {m}:\n{out[-1500:]}")
            bad += 1
    import pqwrite
    try:
        pqwrite.selftest()      # the independent Parquet writer's encoders against its format-text decoder
    except AssertionError as e:
        print(f"pqwrite selftest failed: {e}")
        bad += 1
    print("setup ok" if not bad else f"setup: {bad} module(s) failed to parse")
    return 0 if not bad else 2
