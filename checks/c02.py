"""C02 - the optimizer never changes what a query returns."""
import random, json
import vlib, rel


def plans_differ(step):
    """EXPLAIN output: does the optimized logical plan differ from the unoptimized one?"""
    try:
        rows = {r[0]: r[1] for r in step[-1]["rows"]}
        return rows.get("unoptimized") != rows.get("optimized")
    except Exception:
        return False


def run(tier):
    rep = vlib.Report("C02", tier)
    rng = random.Random(vlib.seed())
    tables = rel.gen_tables(rep, "C02-gent")
    d1 = rel.gen_select(rep, "C02-gen1", 1)
    nsim, k = (120, 60) if tier == "quick" else (180, 30)
    deep = rel.gen_select(rep, "C02-gensim", 3, simulate=nsim, seed=vlib.seed() + 17, sample_k=k)
    deep = [p for p in deep if p["d"] >= 2]
    gj = rel.gen("GenJoin", {"What": '"queries"', "MaxRows": 2, "MaxVal": 1}, "C02-genj")
    rep.add_tlc(gj, "GEN GenJoin queries")
    joins = [{"q": p["q"], "tag": "/".join(p["tag"])} for p in gj.printed if "q" in p]
    ndb = 3 if tier == "quick" else 4
    dbs = rel.pick_dbs(tables, rng, max(ndb, 5))
    run_ = rel.RelRun(rep, "optimizer")
    for qi, p in enumerate(d1 + deep + joins):
        for db in ([dbs[qi % 5]] + rng.sample(dbs, ndb - 1)):
            if "S" not in db:
                continue
            tag = p.get("tag") or rel.shape(p["q"])
            a = run_.add(tag, p["q"], db, {"partitions": 2, "optimizer": True})
            b = run_.add(tag, p["q"], db, {"partitions": 2, "optimizer": False})
            if a and b:
                run_.pairs.append((a["id"], b["id"]))
    # deterministic replay of a recorded finding (KF-SEMI-REORDER-RELID)
    a = run_.add("kf/semi_reorder", rel.KF_SEMI_REORDER, rel.KF_DB, {"partitions": 2, "optimizer": True})
    b = run_.add("kf/semi_reorder", rel.KF_SEMI_REORDER, rel.KF_DB, {"partitions": 2, "optimizer": False})
    run_.pairs.append((a["id"], b["id"]))
    run_.execute()
    mism = run_.judge()
    # measured non-triviality: how often does the optimizer actually change the plan?
    explain_cases, seen = [], set()
    for it in run_.items:
        if it["cfg"]["optimizer"] and it["sql"] not in seen and len(seen) < (600 if tier == "quick" else 1500):
            seen.add(it["sql"])
            explain_cases.append({"id": len(explain_cases), "rt": {"kind": "threaded", "threads": 1},
                                  "steps": [{"sql": s} for s in rel.sqlgen.db_setup_sql(it["db"])] +
                                           [{"sql": "EXPLAIN " + it["sql"]}]})
    res = vlib.Driver(nworkers=12, case_timeout=30).run(explain_cases)
    changed = sum(1 for r in res if r and "steps" in r and plans_differ(r["steps"][-1]))
    rep.cov["plans_explained"] = len(explain_cases)
    rep.cov["plans_changed_by_optimizer"] = changed
    if explain_cases and changed == 0:
        rep.tool_error("vacuous: the optimizer changed no plan in the sample")
    run_.report(mism)
    rep.cov["rule"] = ("every GenSelect/GenJoin query is run with enable_optimizer on and off on the same database; "
                       "both observations are judged against Algebra.tla and against each other (pair line: same "
                       "bag, names, types, outcome class); non-trivial = non-empty result; plans_changed_by_optimizer "
                       "counts sampled statements whose EXPLAIN shows a different optimized plan")
    rep.cov["exhaustive"] = False
    rep.assumptions += ["sqlgen rendering is trusted", "the relational value domain is small"]
    return rep.finish()


def replay(path):
    d = json.load(open(path))
    for v in d["violations"][:20]:
        print(json.dumps(v["signature"]))
        print("  ", json.dumps(v["detail"])[:800])
    return 1
