"""C16 - no query makes the engine's unsafe code touch memory it does not own.

Scope decided by this technique (see DESIGN.md section 5): the PHASE PROTOCOL that the engine's unsynchronised
accesses rely on (directory initialised exclusively, hashes inserted before any probe, draining only after every
prober finished) and the engine's own consistency assertions. Memory errors inside a permitted access are out of
reach of a TLA+ model."""
import random, json, os
import vlib, conc
import c04

MC = [
    ("HashJoinOp", "SPECIFICATION Spec\nCONSTANTS P = 3\n  NeedsDrain = TRUE\n  BuildRows = {0,1,2}\n"
     "INVARIANTS DirectoryExclusive ProbeAfterAllInserted DrainAfterAllProbed NoParkedOnSetFlag CountsConsistent\nCHECK_DEADLOCK FALSE\n",
     "phase exclusivity of the hash join's unsynchronised accesses, P=3"),
    ("HashAggOp", "SPECIFICATION Spec\nCONSTANTS P = 4\n  Distinct = TRUE\nINVARIANTS TypeOK DistinctMergeReadsAllFlushes DistinctAggReadsAllMerges MergeReadsAllFlushes ScanReadsAllMerges ParkedDisjoint\nCHECK_DEADLOCK FALSE\n",
     "hash aggregate: every phase reads only completely written tables, P=4, DISTINCT"),
    ("HashAggOp", "SPECIFICATION Spec\nCONSTANTS P = 4\n  Distinct = FALSE\nINVARIANTS TypeOK DistinctMergeReadsAllFlushes DistinctAggReadsAllMerges MergeReadsAllFlushes ScanReadsAllMerges ParkedDisjoint\nCHECK_DEADLOCK FALSE\n",
     "hash aggregate: every phase reads only completely written tables, P=4, no DISTINCT"),
]

QUERIES = [
    "SELECT * FROM L l LEFT JOIN R r ON l.k = r.k",
    "SELECT * FROM L l INNER JOIN R r ON l.s = r.s",
    "SELECT * FROM L l RIGHT JOIN R r ON l.s = r.s AND l.k < r.k",
    "SELECT l.k, l.s IN (SELECT s FROM R) FROM L l",
    "SELECT * FROM L l WHERE NOT EXISTS (SELECT 1 FROM R r WHERE r.s = l.s)",
    "SELECT s, count(*), min(k), max(s), count(DISTINCT k) FROM L GROUP BY s",
    "SELECT DISTINCT s FROM L",
    "SELECT s, k FROM L ORDER BY s DESC, k LIMIT 5",
    "SELECT s FROM L UNION SELECT s FROM R",
    "SELECT l.s || r.s, length(l.s) FROM L l INNER JOIN R r ON l.k = r.k ORDER BY 1",
    "SELECT count(*), max(l2.s), min(length(l.s) + length(r.s)) FROM L l LEFT JOIN R r ON l.k = r.k LEFT JOIN L l2 ON r.s = l2.s",
    "WITH x AS (SELECT s, k FROM L WHERE k >= 0) SELECT count(*) FROM x a INNER JOIN x b ON a.k < b.k",
    "SELECT * FROM L WHERE 1 = 0",
    # aggregate states of different alignment side by side; rows reaching a sort / group / join through a selection
    "SELECT bool_and(k > 0), count(*), min(CAST(k AS SMALLINT)), sum(k), bool_or(k IS NULL), avg(k) FROM L",
    "SELECT s, bool_or(k > 3), count(*), max(CAST(k AS TINYINT)), sum(k) FROM L GROUP BY s",
    "SELECT k, s FROM L WHERE k >= 0 OR k IS NULL ORDER BY s, k",
    "SELECT s, count(*) FROM L WHERE k <> 1 GROUP BY s",
    "SELECT l.k, r.s FROM (SELECT * FROM L WHERE k >= 0) l INNER JOIN (SELECT * FROM R WHERE k < 10) r ON l.s = r.s",
    "SELECT * FROM L l INNER JOIN (SELECT * FROM R WHERE k < 0) r ON l.k = r.k",
]


def strings(rng):
    base = ["", "a", "elevenbytes", "twelve bytes", "thirteen byte", "é" * 6, "𝄞" * 3, "x" * 200, "xxxxxxxxxxxxA", "xxxxxxxxxxxxB"]
    return base


def run(tier):
    rep = vlib.Report("C16", tier)
    rng = random.Random(vlib.seed())
    for i, (mod, cfg, label) in enumerate(MC):
        r = vlib.tlc(mod, cfg, f"C16-mc{i}", workers=6, timeout=900)
        if r.error:
            rep.tool_error(f"MC {label}: {r.error}")
            continue
        rep.add_tlc(r, f"MC {label}")
        if r.violated:
            rep.mismatch({"family": "mc", "module": mod, "violated": r.violated}, {"tail": r.out[-2000:]})
    n = 30 if tier == "quick" else 300
    cases = []
    S = strings(rng)
    for i in range(n):
        nl, nr = rng.choice([0, 1, 7, 64, 700]), rng.choice([0, 1, 7, 64, 700])
        def rows(m):
            return ", ".join("(%d, '%s')" % (rng.randrange(-2, 12), rng.choice(S)) if rng.random() > 0.1 else "(NULL, NULL)" for _ in range(m))
        steps = [{"sql": "CREATE TEMP TABLE L (k INT, s TEXT)"}, {"sql": "CREATE TEMP TABLE R (k INT, s TEXT)"}]
        for t, m in (("L", nl), ("R", nr)):
            for off in range(0, m, 250):
                steps.append({"sql": f"INSERT INTO {t} VALUES {rows(min(250, m - off))}"})
        steps += [{"sql": f"SET partitions = {rng.choice([1, 2, 3, 8, 16])}"}, {"sql": f"SET batch_size = {rng.choice([1, 2, 7, 2048])}"},
                  {"sql": f"SET enable_hash_joins = {rng.choice(['true', 'true', 'false'])}"}]
        for q in rng.sample(QUERIES, 6):
            steps.append({"sql": q})
        chunk = rng.choice([1, 2, 7])
        cases.append({"id": i, "rt": {"kind": "threaded", "threads": rng.choice([2, 4, 16])}, "events": True,
                      "knobs": {"table_chunk_capacity": chunk}, "steps": steps, "timeout": 120, "_nsetup": len(steps) - 6})
    for c in cases:
        # scans honour the batch size only when table chunks are not larger than it (KF-BATCH-LT-CHUNK is C03's finding)
        bs = int([s["sql"] for s in c["steps"] if s["sql"].startswith("SET batch_size")][0].split("=")[1])
        c["knobs"]["table_chunk_capacity"] = min(c["knobs"]["table_chunk_capacity"], bs)
    send = [{k: v for k, v in c.items() if not k.startswith("_")} for c in cases]
    res = vlib.Driver(nworkers=6, case_timeout=180, mem_gb=6).run(send)
    task_traces, hj_lines, ha_lines, all_events, lines = [], [], [], [], []
    meta = {}
    for c, r in zip(cases, res):
        rep.cov["evaluations"] += 1
        if r is None or "steps" not in r:
            why = "abort" if r and r.get("abort") else "timeout" if r and r.get("timeout") else "fatal"
            lid = len(lines)
            lines.append({"id": lid, "outcome": why, "pre": "", "post": "", "probe": "missing"})
            meta[lid] = {"sql": [s["sql"][:120] for s in c["steps"][c["_nsetup"]:]], "knobs": c["knobs"],
                         "msg": " || ".join(p for p in (r or {}).get("panic", []) if p)[:300] or (r or {}).get("stderr_tail", "")[-300:]}
            continue
        failed = set()
        for idx, st in enumerate(r["steps"]):
            out = st[-1].get("outcome") if st else "missing"
            if out != "rows":
                failed.add(idx)
            if idx >= c["_nsetup"]:
                lid = len(lines)
                lines.append({"id": lid, "outcome": out, "pre": "", "post": "", "probe": "rows"})
                meta[lid] = {"sql": c["steps"][idx]["sql"], "knobs": c["knobs"], "msg": (st[-1].get("msg") or "")[:300]}
        t = conc.task_trace(r.get("events", []), failed)
        if t:
            task_traces.append(t)
        hj_lines += conc.hashjoin_traces(r.get("events", []), failed)
        ha_lines += conc.hashagg_traces(r.get("events", []), failed)
        all_events.append(r.get("events", []))
    # outcomes: a debug assertion / out-of-bounds panic / abort is inadmissible
    wd = vlib.workdir("C16-tv")
    path = os.path.join(wd, "trace.ndjson")
    vlib.write_ndjson(path, lines)
    r = vlib.tlc("TraceSession", "SPECIFICATION TSpec\nPOSTCONDITION Accepted\nCHECK_DEADLOCK FALSE\n", "C16-tv", env={"TRACE": path},
                 workers=1, timeout=900, deque=True)
    if r.error or not r.ok:
        rep.tool_error(f"TraceSession: {r.error or r.violated}")
    else:
        rep.add_tlc(r, "TV statement outcomes (debug assertions on)", trace_lines=len(lines))
        for mm in [p for p in r.printed if isinstance(p, dict) and "mismatch" in p]:
            m = meta[mm["mismatch"]]
            rep.mismatch({"family": "unsafe", "why": "outcome", "observed": lines[mm["mismatch"]]["outcome"],
                          "msg": vlib.re.sub(r"\d+", "#", m.get("msg", ""))[:160]}, m)
    for mod, tl, label, fam in (("TraceHashJoin", hj_lines, "hash join phase flags and barriers", "hashjoin-trace"),
                                ("TraceHashAgg", ha_lines, "hash aggregate phase gates", "hashagg-trace"),
                                ("TracePrims", conc.generic_primitive_lines(all_events), "waker/count primitives", "prims-trace"),
                                ("TraceTask", conc.join_task_traces(task_traces), "one execution of a pipeline at a time", "task-trace")):
        for m in conc.validate(rep, mod, tl, f"C16-tv-{fam}", label):
            rep.mismatch({"family": fam, "what": m.get("what"), "ev": m.get("ev"), "lab": m.get("lab")}, m)
    passes = sum(1 for l in hj_lines + ha_lines if l["ev"] == "Pass")
    if not passes:
        rep.tool_error("vacuity: no barrier pass-through events recorded")
    rep.cov["distinct_nontrivial"] = passes
    rep.cov["families"]["threaded"] = {"sessions": len(cases), "statements": len(lines), "hash_join_events": len(hj_lines), "hash_aggregate_events": len(ha_lines),
                                      "barrier_passes_checked_against_phase_flags": passes}
    rep.cov["samples"] = [{"sql": meta[i]["sql"], "knobs": meta[i]["knobs"], "outcome": lines[i]["outcome"]} for i in list(meta)[:3]]
    rep.cov["rule"] = ("MC: HashJoinOp.tla phase-exclusivity invariants (directory initialised by exactly one partition while nobody inserts / "
                       "probes / drains; probe only after every partition inserted; drain only after every prober finished), P = 3; V: real "
                       "thread-pool runs (2-16 threads, 1-16 partitions, batch sizes 1-2048, hash and nested-loop joins) over text values "
                       "around the 12-byte inline limit, empty / single-row / many-block tables with debug assertions and overflow checks on: "
                       "every barrier pass-through logs the phase flags as read under the lock and TraceHashJoin.tla rejects a pass before its "
                       "phase is open; TraceTask.tla rejects two concurrent executions of one pipeline; any panic / abort / assertion failure "
                       "is an inadmissible outcome; non-trivial = barrier pass-throughs validated")
    rep.cov["exhaustive"] = False
    rep.assumptions += ["memory errors inside an access the protocol permits (out-of-bounds, misalignment, uninitialised reads) are not decided",
                        "only the hash join has operator-specific phase events; other operators are covered by the primitive discipline and outcomes"]
    return rep.finish()


def replay(path):
    import c14
    return c14.replay(path)
