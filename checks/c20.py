"""C20 - string and pattern functions are Unicode-correct; LIKE rewrites are equivalent."""
import json, random, os, itertools, concurrent.futures
import vlib

ALPHA_LIKE = ["a", "b", "%", "_", "\\", "é", "\n"]
ALPHA_STR = ["a", "b", "é", "\n", "%"]


def sq(s):
    return "'" + s.replace("'", "''") + "'"


def cps(s):
    return [ord(c) for c in s]


def strings(alpha, n):
    out = [""]
    for k in range(1, n + 1):
        out += ["".join(t) for t in itertools.product(alpha, repeat=k)]
    return out


def outrec(v, kind):
    if isinstance(v, dict) and "badutf8" in v:
        return {"k": "invalid-utf8", "v": []}
    if v is None:
        return {"k": "null", "v": []}
    if isinstance(v, bool):
        return {"k": "val", "v": [1 if v else 0]}
    if isinstance(v, int):
        return {"k": "val", "v": [v]}
    if isinstance(v, str):
        return {"k": "val", "v": cps(v)}
    return {"k": "unknown", "v": []}


def rx_render(r):
    """pattern AST (Regex.tla) -> regex syntax; every composite is parenthesised (non-capturing)"""
    k = r["k"]
    if k == "lit":
        return chr(r["c"])
    if k == "any":
        return "."
    if k == "cls":
        return "[" + ("^" if r["neg"] else "") + "".join(chr(c) for c in sorted(r["set"])) + "]"
    if k == "bol":
        return "^"
    if k == "eol":
        return "$"
    if k == "cat":
        return "(?:" + rx_render(r["a"]) + ")(?:" + rx_render(r["b"]) + ")"
    if k == "alt":
        return "(?:" + rx_render(r["a"]) + "|" + rx_render(r["b"]) + ")"
    return "(?:" + rx_render(r["a"]) + ")" + {"star": "*", "plus": "+", "opt": "?"}[k]


# (spec function, SQL template, literal replacement text): a replacement without a backslash is literal text, also when it holds '$'
RX_FNS = [("like", "regexp_like({s}, {p})", ""), ("instr", "regexp_instr({s}, {p})", ""), ("count", "regexp_count({s}, {p})", ""),
          ("replace", "regexp_replace({s}, {p}, 'xy')", "xy"), ("replace", "regexp_replace({s}, {p}, '$0$1é')", "$0$1é"),
          ("replace", "regexp_replace({s}, {p}, '')", "")]


def regex_part(rep, tier, rng):
    """regular-expression functions: TLC-generated pattern ASTs x short strings, pattern as a constant and from a column"""
    depth, k = (2, 60) if tier == "quick" else (2, 6)
    g = vlib.tlc("GenRegex", f"INIT Init\nNEXT Next\nINVARIANT Emit\nCHECK_DEADLOCK FALSE\nCONSTANTS Depth = {depth}\n SampleK = {k}\n",
                 "C20-genrx", workers=4, timeout=900)
    if g.error:
        raise vlib.ToolError(f"GenRegex: {g.error}")
    rep.add_tlc(g, f"GEN regex ASTs depth <= {depth} (1/{k} sample)")
    g1 = vlib.tlc("GenRegex", "INIT Init\nNEXT Next\nINVARIANT Emit\nCHECK_DEADLOCK FALSE\nCONSTANTS Depth = 1\n SampleK = 1\n",
                  "C20-genrx1", workers=4, timeout=900)
    rep.add_tlc(g1, "GEN regex ASTs depth <= 1 (all)")
    pats = [p for p in g1.printed + g.printed if isinstance(p, dict) and "k" in p]
    seen, uniq = set(), []
    for p in pats:
        key = json.dumps(p, sort_keys=True)
        if key not in seen:
            seen.add(key)
            uniq.append(p)
    strs = strings(["a", "b", "é", "\n"], 3)
    strs += ["xxxxxxxxxxxx" + s for s in strs[:10]] + ["é" * 7 + "ab"]
    cases = []
    for i in range(0, len(uniq), 12):
        chunk = uniq[i:i + 12]
        steps = [{"sql": "CREATE TEMP TABLE strs (s TEXT)"},
                 {"sql": "INSERT INTO strs VALUES " + ", ".join(f"({sq(s)})" for s in rng.sample(strs, 24))}]
        n0 = len(steps)
        plan = []
        for p in chunk:
            rx = rx_render(p)
            for f, tmpl, rtxt in RX_FNS:
                steps.append({"sql": "SELECT s, " + tmpl.format(s="s", p=sq(rx)) + " FROM strs"})
                plan.append((p, f, "constant", rtxt))
                steps.append({"sql": "SELECT s, " + tmpl.format(s="s", p="p") + f" FROM strs CROSS JOIN (VALUES ({sq(rx)})) v(p)"})
                plan.append((p, f, "column", rtxt))
        cases.append({"id": len(cases), "rt": {"kind": "threaded", "threads": 2}, "steps": steps, "timeout": 120, "_plan": plan, "_n0": n0})
    send = [{k: v for k, v in c.items() if not k.startswith("_")} for c in cases]
    res = vlib.Driver(nworkers=14, case_timeout=120).run(send)
    lines, meta = [], {}
    for c, r in zip(cases, res):
        if r is None or "steps" not in r:
            singles = [{"id": j, "rt": c["rt"], "steps": c["steps"][:c["_n0"]] + [st], "timeout": 20} for j, st in enumerate(c["steps"][c["_n0"]:])]
            rr = vlib.Driver(nworkers=14, case_timeout=20).run(singles)
            steps = [x["steps"][-1] if x and "steps" in x else
                     [{"outcome": "abort" if (x or {}).get("abort") else "timeout", "msg": " || ".join(q for q in (x or {}).get("panic", []) if q)}] for x in rr]
        else:
            steps = r["steps"][c["_n0"]:]
        for (p, f, ctx, rtxt), st in zip(c["_plan"], steps):
            o = st[-1]
            if o.get("outcome") == "rows":
                for row in o["rows"]:
                    lid = len(lines)
                    lines.append({"id": lid, "f": f, "r": p, "s": cps(row[0]), "rep": cps(rtxt), "out": outrec(row[1], "fn")})
                    meta[lid] = {"fn": "regexp_" + f, "ctx": ctx, "pattern": rx_render(p), "s": row[0], "replacement": rtxt}
            else:
                lid = len(lines)
                lines.append({"id": lid, "f": f, "r": p, "s": [], "rep": cps(rtxt),
                              "out": {"k": "err" if o.get("outcome") == "error" else o.get("outcome"), "v": []}})
                meta[lid] = {"fn": "regexp_" + f, "ctx": ctx, "pattern": rx_render(p), "s": None, "msg": (o.get("msg") or "")[:200]}
    wd = vlib.workdir("C20-rx")
    chunks = [lines[i:i + 20000] for i in range(0, len(lines), 20000)]
    mism = []

    def one(ci):
        path = os.path.join(wd, f"trace{ci}.ndjson")
        vlib.write_ndjson(path, chunks[ci])
        return ci, vlib.tlc("TraceRegex", "SPECIFICATION TSpec\nPOSTCONDITION Accepted\nCHECK_DEADLOCK FALSE\n", f"C20-rx{ci}",
                            env={"TRACE": path}, workers=1, timeout=1700, deque=True, heap="3g")
    with concurrent.futures.ThreadPoolExecutor(max_workers=6) as ex:
        for ci, r in ex.map(one, range(len(chunks))):
            if r.error or not r.ok:
                rep.tool_error(f"TraceRegex chunk {ci}: {r.error or r.violated}: {r.out[-800:]}")
                continue
            rep.add_tlc(r, f"TV regex#{ci}", trace_lines=len(chunks[ci]))
            mism += [p for p in r.printed if isinstance(p, dict) and "mismatch" in p]
    for m in mism:
        i = meta[m["mismatch"]]
        ln = lines[m["mismatch"]]
        s = i["s"] or ""
        sig = {"family": "regex", "fn": i["fn"], "ctx": i["ctx"], "observed": ln["out"]["k"], "multibyte_in_s": any(ord(ch) > 127 for ch in s),
               "msg": vlib.re.sub(r"\d+", "#", i.get("msg", ""))[:120]}
        rep.mismatch(sig, dict(i, expected=m.get("exp"), observed=ln["out"]))
    rep.cov["regex_rule"] = (f"regexp_like / regexp_instr / regexp_count / regexp_replace: every pattern AST of depth <= 1 and a 1/{k} sample of "
                             "depth 2 from GenRegex.tla (literals, '.', classes, anchors, * + ?, concatenation, alternation) x 24 sampled strings "
                             "of length <= 3 over {a, b, e-acute, newline} plus out-of-line variants, pattern as a constant and from a column; "
                             "judged by Regex.tla (leftmost-first backtracking order)")
    return len(lines)


NULLFNS = [  # (spec name, SQL template over {s} {n} {p} {m}, which argument slots it uses)
    ("lpad", "lpad({s}, {n}, {p})", "snp"), ("rpad", "rpad({s}, {n}, {p})", "snp"), ("substring", "substring({s}, {n}, {m})", "snm"),
    ("replace", "replace({s}, {p}, 'x')", "sp"), ("left", "left({s}, {n})", "sn"), ("right", "right({s}, {n})", "sn"),
    ("repeat", "repeat({s}, {n})", "sn"), ("strpos", "strpos({s}, {p})", "sp"), ("starts_with", "starts_with({s}, {p})", "sp"),
    ("contains", "contains({s}, {p})", "sp"), ("concat_op", "{s} || {p}", "sp")]


def null_lines(lines, meta, rng):
    """NULL propagation of the 2- and 3-argument string functions with every mix of column and constant arguments:
    a table holds every combination of {value, value, NULL} per argument; each argument is taken from its column or
    replaced by a non-NULL constant."""
    S, N, P, M = ["ab", "é𝄞x", None], [1, 3, None], ["*", "b", None], [2, None]
    rows = [(s, n, p, m) for s in S for n in N for p in P for m in M]
    vals = ", ".join("(" + ", ".join("NULL" if v is None else (sq(v) if isinstance(v, str) else str(v)) for v in r) + ")" for r in rows)
    setup = [{"sql": "CREATE TEMP TABLE args (s TEXT, n INT, p TEXT, m INT)"}, {"sql": f"INSERT INTO args VALUES {vals}"}]
    const = {"s": ("'ab'", "ab"), "n": ("2", 2), "p": ("'*'", "*"), "m": ("2", 2)}
    cases, plans = [], []
    for f, tmpl, slots in NULLFNS:          # one session per function: a hang or crash of one function costs only its own lines
        steps, plan = list(setup), []
        for mask in range(1, 2 ** len(slots)):          # bit set = argument comes from the column; at least one column
            use = {sl: bool(mask >> i & 1) for i, sl in enumerate(slots)}
            args = {sl: (sl if use.get(sl) else const[sl][0]) for sl in "snpm"}
            steps.append({"sql": "SELECT s, n, p, m, " + tmpl.format(**args) + " FROM args"})
            plan.append((f, slots, use))
        cases.append({"id": len(cases), "rt": {"kind": "threaded", "threads": 2}, "steps": steps, "timeout": 60})
        plans.append(plan)
    results = vlib.Driver(nworkers=6, case_timeout=60).run(cases)
    flat = []
    for case, res, plan in zip(cases, results, plans):
        for k, (f, slots, use) in enumerate(plan):
            st = res["steps"][len(setup) + k] if res and "steps" in res else [{"outcome": "abort" if (res or {}).get("abort") else "timeout"}]
            flat.append((f, slots, use, st[-1], case["steps"][len(setup) + k]["sql"]))
    for (f, slots, use, o, sqltext) in flat:
        got = o["rows"] if o.get("outcome") == "rows" else [None]
        for row in got:
            lid = len(lines)
            if row is None:
                lines.append({"id": lid, "kind": "fn", "s": [], "p": [], "f": f, "n": 0, "m": 0, "an": [],
                              "out": {"k": "err" if o.get("outcome") == "error" else o.get("outcome"), "v": []}})
                meta[lid] = {"fn": f, "sql": sqltext, "ctx": "null-mix", "msg": (o.get("msg") or "")[:200]}
                continue
            a = {"s": row[0] if use.get("s") else const["s"][1], "n": row[1] if use.get("n") else const["n"][1],
                 "p": row[2] if use.get("p") else const["p"][1], "m": row[3] if use.get("m") else const["m"][1]}
            an = [1 if a[sl] is None else 0 for sl in slots]
            lines.append({"id": lid, "kind": "fn", "s": cps(a["s"] or ""), "p": cps(a["p"] or ""), "f": f, "n": a["n"] or 0, "m": a["m"] or 0,
                          "an": an, "out": outrec(row[4], "fn")})
            meta[lid] = {"fn": f, "sql": sqltext, "ctx": "null-mix:" + "".join(sl if use.get(sl) else "_" for sl in slots),
                         "args": a, "msg": ""}


def run(tier):
    rep = vlib.Report("C20", tier)
    rng = random.Random(vlib.seed())
    mc = vlib.tlc("MCLike", "INIT Init\nNEXT Next\n", "C20-mc", workers=2, timeout=600)
    if mc.error or not mc.ok:
        rep.tool_error(f"MCLike: {mc.error or mc.violated}: {mc.out[-500:]}")
    else:
        rep.add_tlc(mc, "MC laws of LIKE and of the four rewrites (ASSUME)")
    ns, npat = (2, 2) if tier == "quick" else (3, 3)
    strs = strings(ALPHA_STR, ns)
    # long variants (stored out of line: > 12 bytes) of a sample
    strs += ["xxxxxxxxxxxx" + s for s in strs[: 12]]
    pats = strings(ALPHA_LIKE, npat)
    if tier == "quick":
        rng.shuffle(pats)
        pats = sorted(set(pats[:40] + ["", "%", "_", "a%", "%a", "%a%", "a", "a\\b", "\\%", "a\\", "%\n%", "é%", "_é", "a_%"]))
    pats += ["xxxxxxxxxxxxa%", "%xxxxxxxxxxxxa", "xxxxxxxxxxxx_"]
    lines, meta = [], {}
    cases = []
    setup = [{"sql": "CREATE TEMP TABLE strs (s TEXT)"},
             {"sql": "INSERT INTO strs VALUES " + ", ".join(f"({sq(s)})" for s in strs)}]
    # LIKE with a constant pattern (optimizer on: rewritten; off: general matcher) and with the pattern from a column
    for mode in ("const_opt", "const_noopt", "column"):
        for i in range(0, len(pats), 25):
            chunk = pats[i:i + 25]
            steps = list(setup)
            if mode == "const_noopt":
                steps.append({"sql": "SET enable_optimizer = false"})
            for p in chunk:
                if mode == "column":
                    steps.append({"sql": f"SELECT s, s LIKE p FROM strs CROSS JOIN (VALUES ({sq(p)})) v(p)"})
                else:
                    steps.append({"sql": f"SELECT s, s LIKE {sq(p)} FROM strs"})
            cases.append({"id": len(cases), "rt": {"kind": "threaded", "threads": 2}, "steps": steps, "timeout": 120,
                          "_kind": "like", "_mode": mode, "_pats": chunk, "_n0": len(steps) - len(chunk)})
    # string functions
    S = ["", "a", "ab", "éa", "a é", " a ", "  ", "aé\n", "𝄞a", "ab𝄞", "aaa", "abab", "xxxxxxxxxxxxé", "éxxxxxxxxxxxxa", "éa"]
    T = ["", "a", "b", "ab", "é", "𝄞", " "]
    fns = []
    for s in S:
        for f in ("length", "reverse", "upper", "lower", "trim", "ltrim", "rtrim"):
            fns.append((f, s, "", 0, 0, f"{f}({sq(s)})"))
        for n in (-30, -3, -2, -1):
            fns.append(("left", s, "", n, 0, f"left({sq(s)}, {n})"))
            fns.append(("right", s, "", n, 0, f"right({sq(s)}, {n})"))
        for n in (0, 1, 2, 3, 13, 30):
            fns.append(("left", s, "", n, 0, f"left({sq(s)}, {n})"))
            fns.append(("right", s, "", n, 0, f"right({sq(s)}, {n})"))
            fns.append(("repeat", s, "", min(n, 3), 0, f"repeat({sq(s)}, {min(n, 3)})"))
            for m in (0, 1, 2, 20):
                if n >= 1:
                    fns.append(("substring", s, "", n, m, f"substring({sq(s)}, {n}, {m})"))
        for t in T:
            fns.append(("concat_op", s, t, 0, 0, f"{sq(s)} || {sq(t)}"))
            fns.append(("strpos", s, t, 0, 0, f"strpos({sq(s)}, {sq(t)})"))
            fns.append(("starts_with", s, t, 0, 0, f"starts_with({sq(s)}, {sq(t)})"))
            fns.append(("ends_with", s, t, 0, 0, f"ends_with({sq(s)}, {sq(t)})"))
            fns.append(("contains", s, t, 0, 0, f"contains({sq(s)}, {sq(t)})"))
            if t:
                fns.append(("replace", s, t, 0, 0, f"replace({sq(s)}, {sq(t)}, 'x')"))
                for n in (0, 1, 3, 5, 14):
                    fns.append(("lpad", s, t, n, 0, f"lpad({sq(s)}, {n}, {sq(t)})"))
                    fns.append(("rpad", s, t, n, 0, f"rpad({sq(s)}, {n}, {sq(t)})"))
    if tier == "quick":
        rng.shuffle(fns)
        fns = fns[:2500]
    for i in range(0, len(fns), 120):
        chunk = fns[i:i + 120]
        # each call as a folded constant and over a one-row table column
        steps = [{"sql": "CREATE TEMP TABLE one (x INT)"}, {"sql": "INSERT INTO one VALUES (1)"}]
        for f, s, t, n, m, sql in chunk:
            steps.append({"sql": f"SELECT {sql}, (SELECT {sql} FROM one)"})
        cases.append({"id": len(cases), "rt": {"kind": "threaded", "threads": 2}, "steps": steps, "timeout": 120,
                      "_kind": "fn", "_fns": chunk, "_n0": 2})
    send = [{k: v for k, v in c.items() if not k.startswith("_")} for c in cases]
    res = vlib.Driver(nworkers=14, case_timeout=120).run(send)

    def isolate(c):
        singles = [{"id": j, "rt": c["rt"], "steps": c["steps"][:c["_n0"]] + [st], "timeout": 20}
                   for j, st in enumerate(c["steps"][c["_n0"]:])]
        rr = vlib.Driver(nworkers=14, case_timeout=20).run(singles)
        out = []
        for x in rr:
            if x is None or "steps" not in x:
                out.append([{"outcome": "abort" if (x or {}).get("abort") else "timeout",
                             "msg": " || ".join(p for p in (x or {}).get("panic", []) if p)}])
            else:
                out.append(x["steps"][-1])
        return out
    for c, r in zip(cases, res):
        steps = r["steps"][c["_n0"]:] if r and "steps" in r else isolate(c)
        if c["_kind"] == "like":
            for p, st in zip(c["_pats"], steps):
                o = st[-1]
                if o.get("outcome") == "rows":
                    for row in o["rows"]:
                        lid = len(lines)
                        lines.append({"id": lid, "kind": "like", "s": cps(row[0]) if isinstance(row[0], str) else [], "p": cps(p),
                                      "f": "", "n": 0, "m": 0, "an": [], "out": outrec(row[1], "like")})
                        meta[lid] = {"mode": c["_mode"], "s": row[0], "p": p}
                else:
                    lid = len(lines)
                    k = "err" if o.get("outcome") == "error" else o.get("outcome")
                    lines.append({"id": lid, "kind": "like", "s": [], "p": cps(p), "f": "", "n": 0, "m": 0, "an": [], "out": {"k": k, "v": []}})
                    meta[lid] = {"mode": c["_mode"], "s": None, "p": p, "msg": o.get("msg", "")[:200]}
        else:
            for (f, s, t, n, m, sql), st in zip(c["_fns"], steps):
                o = st[-1]
                for ctx, idx in (("constant", 0), ("column", 1)):
                    lid = len(lines)
                    if o.get("outcome") == "rows" and o["rows"]:
                        out = outrec(o["rows"][0][idx], "fn")
                    else:
                        out = {"k": "err" if o.get("outcome") == "error" else o.get("outcome"), "v": []}
                    lines.append({"id": lid, "kind": "fn", "s": cps(s), "p": cps(t), "f": f, "n": n, "m": m, "an": [], "out": out})
                    meta[lid] = {"fn": f, "sql": sql, "ctx": ctx, "msg": o.get("msg", "")[:200]}
    null_lines(lines, meta, rng)
    rep.cov["evaluations"] = len(lines) + regex_part(rep, tier, rng)
    wd = vlib.workdir("C20-tv")
    chunks = [lines[i:i + 15000] for i in range(0, len(lines), 15000)]
    mism = []

    def one(ci):
        path = os.path.join(wd, f"trace{ci}.ndjson")
        vlib.write_ndjson(path, chunks[ci])
        return ci, vlib.tlc("TraceText", "SPECIFICATION TSpec\nPOSTCONDITION Accepted\nCHECK_DEADLOCK FALSE\n", f"C20-tv{ci}",
                            env={"TRACE": path}, workers=1, timeout=1700, deque=True, heap="3g")
    with concurrent.futures.ThreadPoolExecutor(max_workers=6) as ex:
        for ci, r in ex.map(one, range(len(chunks))):
            if r.error or not r.ok:
                rep.tool_error(f"TraceText chunk {ci}: {r.error or r.violated}: {r.out[-800:]}")
                continue
            rep.add_tlc(r, f"TV strings#{ci}", trace_lines=len(chunks[ci]))
            mism += [p for p in r.printed if isinstance(p, dict) and "mismatch" in p]
    for m in mism:
        i = meta[m["mismatch"]]
        ln = lines[m["mismatch"]]
        if ln["kind"] == "like":
            p = i["p"]
            feat = {"newline_in_s": bool(i["s"]) and "\n" in i["s"], "escape_in_p": "\\" in p,
                    "shape": ("contains" if p.startswith("%") and p.endswith("%") and len(p) > 1 else "suffix" if p.startswith("%")
                              else "prefix" if p.endswith("%") else "exact" if not any(c in p for c in "%_") else "general")}
            sig = dict({"family": "like", "mode": i["mode"], "observed": ln["out"]["k"]}, **feat)
        else:
            sig = {"family": "strfn", "fn": i["fn"], "ctx": i["ctx"], "observed": ln["out"]["k"],
                   "msg": vlib.re.sub(r"\d+", "#", i.get("msg", ""))[:120]}
        rep.mismatch(sig, dict(i, expected=m.get("exp"), observed=ln["out"]))
    rep.cov["distinct_nontrivial"] = sum(1 for l in lines if l["out"]["k"] == "val" and l["out"]["v"] not in ([], [0]))
    rep.cov["samples"] = [dict(meta[i], out=lines[i]["out"]) for i in (0, len(lines) // 2, len(lines) - 1)]
    rep.cov["rule"] = (f"LIKE: all strings of length <= {ns} over {ALPHA_STR} (plus > 12-byte variants) x patterns of length <= {npat} "
                       f"over {ALPHA_LIKE} (quick: a seeded sample plus fixed corner patterns), each pattern as a constant with the "
                       "optimizer on (rewritten), off (general matcher) and from a column; string functions over tuples mixing ASCII, "
                       "2-4-byte code points, a combining mark, spaces, lengths around the 12-byte inline limit, as folded constants "
                       "and over a table column; judged by Text.tla definitions on code-point sequences; a result that is not valid "
                       "UTF-8 is an inadmissible outcome; non-trivial = a non-empty / true result")
    rep.cov["exhaustive"] = tier == "thorough"
    rep.assumptions += ["regular-expression syntax beyond literals, '.', classes, anchors, * + ?, concatenation and alternation (counted repetition, "
                        "lazy quantifiers, capture-group references in replacements, flags) is not specified in Regex.tla"]
    return rep.finish()


def replay(path):
    import c14
    return c14.replay(path)
