"""C11 - scan pushdown and multi-file scans only skip work, never change rows."""
import json, random, os, itertools, concurrent.futures
import vlib, pqwrite
from c10 import canon_expected, canon_observed

DIR = os.path.join(vlib.WORK, "C11-files")


def rank_all(values, consts, unsigned_bits=None):
    """order-preserving ranks of all values and constants of a case (the mechanical value transport)"""
    allv = sorted(set(v for v in values if v is not None) | set(consts))
    return {v: i for i, v in enumerate(allv)}


def stats_variants(vals):
    nn = [v for v in vals if v is not None]
    nulls = len(vals) - len(nn)
    out = [("exact", "exact"), ("absent", "absent")]
    if nn:
        lo, hi = min(nn), max(nn)
        wlo, whi = ("", hi + "zz") if isinstance(lo, str) else (lo - 5, hi + 7)
        out += [("null_count_only", {"min": None, "max": None, "null_count": nulls}),
                ("wider", {"min": wlo, "max": whi, "null_count": nulls}),
                ("min_only", {"min": lo, "max": None, "null_count": nulls}),
                ("max_only", {"min": None, "max": hi, "null_count": None}),
                ("new_fields_only", {"min": lo, "max": hi, "null_count": nulls, "new_only": True}),
                ("no_null_count", {"min": lo, "max": hi, "null_count": None})]
    else:
        out += [("all_null_with_count", {"min": None, "max": None, "null_count": nulls})]
    return out


def run(tier):
    rep = vlib.Report("C11", tier)
    rng = random.Random(vlib.seed())
    vlib.workdir("C11-files")
    cases, meta, lines = [], {}, []
    # ---- (a) statistics-based pruning and filter pushdown
    coldefs = [("INT32", None, "Int32", [-3, 0, 2, 5, 9]), ("INT32", "UINT_32", "UInt32", [0, 2, 5, 3000000000 - 2 ** 32, 4000000000 - 2 ** 32]),
               ("INT64", None, "Int64", [-3, 0, 2, 5, 9]), ("BYTE_ARRAY", "UTF8", "Utf8", ["", "a", "ab", "b", "zz"]),
               ("DOUBLE", None, "Float64", [-1.5, 0.0, 2.0, 2.5, 9.0])]
    groupsets = [[[0, 1], [2, None], [3, 4]], [[None, None], [1, 1]], [[4], [0, 2, 2]], [[1, 3, None, 0]]]
    ops = ["eq", "ne", "lt", "le", "gt", "ge"]
    fi = 0
    for (pt, conv, tname, dom) in coldefs:
        unsigned = conv == "UINT_32"
        logical_of = (lambda v: v + 2 ** 32 if (unsigned and v is not None and v < 0) else v)
        for gs in groupsets:
            groups_vals = [[None if i is None else dom[i] for i in g] for g in gs]
            allvals = [v for g in groups_vals for v in g]
            sv_per_group = [stats_variants([logical_of(v) for v in g] if pt != "BYTE_ARRAY" else g) for g in groups_vals]
            nvar = max(len(x) for x in sv_per_group)
            for vi in range(nvar if tier == "thorough" else min(nvar, 4)):
                rowno = 0
                rgs, stat_names = [], []
                for g, svs in zip(groups_vals, sv_per_group):
                    name, st = svs[(vi + len(rgs)) % len(svs)]
                    stat_names.append(name)
                    if isinstance(st, dict) and unsigned and st.get("min") is not None and st["min"] < 0:
                        st = dict(st, min=0)
                    if isinstance(st, dict) and unsigned:
                        # statistics bytes of an unsigned column are the unsigned values' little-endian bytes
                        st = dict(st, **{k: (st[k] - 2 ** 32 if st.get(k) is not None and st[k] >= 2 ** 31 else st.get(k)) for k in ("min", "max")})
                    rows = []
                    for v in g:
                        rows.append((v, rowno))
                        rowno += 1
                    rgs.append({"pages": [rows], "stats": {0: st}})
                desc = {"columns": [{"name": "v", "type": pt, "optional": True, "converted": conv}, {"name": "rowno", "type": "INT32", "optional": False}],
                        "row_groups": rgs}
                data, _ = pqwrite.write(desc)
                path = os.path.join(DIR, f"s{fi}.parquet")
                fi += 1
                with open(path, "wb") as fh:
                    fh.write(data)
                consts = dom + ([dom[0] - 1, dom[-1] + 1] if pt in ("INT32", "INT64") and not unsigned else [])
                logical_vals = [logical_of(v) for v in allvals]
                lconsts = [logical_of(c) for c in consts]
                ranks = rank_all(logical_vals, lconsts)
                logical_rows = [[canon_expected(logical_of(v) if pt != "BYTE_ARRAY" else v, "INT64" if unsigned else pt, conv), f"i:{i}"] for i, v in enumerate(allvals)]
                preds = [(op, c) for op in ops for c in (lconsts if tier == "thorough" else rng.sample(lconsts, 3))] + [("isnull", None), ("notnull", None)]
                steps = []
                for op, c in preds:
                    if op in ("isnull", "notnull"):
                        w = "v IS NULL" if op == "isnull" else "v IS NOT NULL"
                    else:
                        lit = ("'" + c + "'") if isinstance(c, str) else repr(c) if isinstance(c, float) else str(c)
                        w = f"v {dict(eq='=', ne='<>', lt='<', le='<=', gt='>', ge='>=')[op]} {lit}"
                    steps.append({"sql": f"SELECT v, rowno FROM read_parquet('{path}') WHERE {w}"})
                cid = len(cases)
                cases.append({"id": cid, "rt": {"kind": "threaded", "threads": 2}, "steps": [{"sql": "SET partitions = 2"}] + steps, "timeout": 60})
                meta[cid] = {"kind": "filter", "path": path, "type": tname, "stats": stat_names, "preds": preds, "rows": logical_rows,
                             "vals": [[] if v is None else [ranks[v]] for v in logical_vals], "ranks": {str(k): v for k, v in ranks.items()},
                             "types": ["UInt32" if unsigned else tname, "Int32"], "rank_of": ranks}
    # ---- (b) projections: subsets, reorderings, repeated columns
    desc = {"columns": [{"name": "a", "type": "INT32", "optional": True}, {"name": "b", "type": "BYTE_ARRAY", "optional": True, "converted": "UTF8"},
                        {"name": "c", "type": "DOUBLE", "optional": False}],
            "row_groups": [{"pages": [[(1, "x", 1.5), (None, "yy", 2.5)], [(3, None, -1.0)]]}, {"pages": [[(4, "z", 0.0)]]}]}
    data, _ = pqwrite.write(desc)
    ppath = os.path.join(DIR, "proj.parquet")
    open(ppath, "wb").write(data)
    allrows = [r for g in desc["row_groups"] for p in g["pages"] for r in p]
    colinfo = {"a": (0, "INT32", None, "Int32"), "b": (1, "BYTE_ARRAY", "UTF8", "Utf8"), "c": (2, "DOUBLE", None, "Float64")}
    projs = [["a"], ["c", "a"], ["b", "b"], ["c", "b", "a"], ["a", "a", "c", "a"], ["b"]]
    for pr in projs:
        cid = len(cases)
        cases.append({"id": cid, "rt": {"kind": "threaded", "threads": 2}, "timeout": 60,
                      "steps": [{"sql": "SET partitions = 1"}, {"sql": f"SELECT {', '.join(pr)} FROM read_parquet('{ppath}')"}]})
        meta[cid] = {"kind": "read", "path": ppath, "proj": pr, "types": [colinfo[c][3] for c in pr],
                     "rows": [[canon_expected(r[colinfo[c][0]], colinfo[c][1], colinfo[c][2]) for c in pr] for r in allrows]}
    # ---- (b2) projection and pushed filter together: the filter column's position in the projection differs from its position in
    #      the file, and the columns' value ranges are disjoint, so statistics of the wrong column would prune the wrong groups
    cols3 = ["a", "b", "c", "d"]
    base3 = {"a": 0, "b": 100, "c": 300, "d": 100}
    g3 = [[(1, 101, 301, 101), (2, 102, 302, 109)], [(3, 103, 303, 103), (None, 104, 304, 101)], [(5, None, 305, 105)]]
    desc3 = {"columns": [{"name": n, "type": "INT32", "optional": True} for n in cols3], "row_groups": [{"pages": [g]} for g in g3]}
    p3 = os.path.join(DIR, "projfilter.parquet")
    open(p3, "wb").write(pqwrite.write(desc3)[0])
    rows3 = [r for g in g3 for r in g]
    projsets = [["b", "c"], ["c", "b"], ["c"], ["d", "c"], ["a", "c"], ["c", "a", "b"], ["b"], ["d", "b", "a"], ["b", "d"]]
    for pr in projsets:
        for fcol in cols3:
            fi_ = cols3.index(fcol)
            fvals = [r[fi_] for r in rows3]
            consts3 = sorted({v for v in fvals if v is not None} | {base3[fcol], base3[fcol] + 50})
            ranks3 = rank_all(fvals, consts3)
            preds3 = [(op, c_) for op in ("eq", "gt", "le") for c_ in (consts3 if tier == "thorough" else rng.sample(consts3, 2))] + [("isnull", None)]
            steps3 = []
            for op, c_ in preds3:
                w = f"{fcol} IS NULL" if op == "isnull" else f"{fcol} {dict(eq='=', gt='>', le='<=')[op]} {c_}"
                steps3.append({"sql": f"SELECT {', '.join(pr)} FROM read_parquet('{p3}') WHERE {w}"})
            cid = len(cases)
            cases.append({"id": cid, "rt": {"kind": "threaded", "threads": 2}, "steps": [{"sql": "SET partitions = 2"}] + steps3, "timeout": 60})
            meta[cid] = {"kind": "filter", "path": p3, "type": "Int32/proj=" + ",".join(pr) + "/filter=" + fcol, "stats": ["exact"], "preds": preds3,
                         "rows": [[canon_expected(r[cols3.index(c_)], "INT32", None) for c_ in pr] for r in rows3],
                         "vals": [[] if v is None else [ranks3[v]] for v in fvals], "types": ["Int32"] * len(pr), "rank_of": ranks3}
    # ---- (c) multi-file scans: lists and globs over a generated directory tree
    tree = {"d/f1.parquet": [1, 2], "d/f2.parquet": [3], "d/g1.parquet": [4, 5], "d/sub/f3.parquet": [6], "d/sub/deep/f4.parquet": [7, 8], "d/fx.parquet": []}
    files = []
    for rel_, vals in tree.items():
        full = os.path.join(DIR, rel_)
        os.makedirs(os.path.dirname(full), exist_ok=True)
        rows = [(v, i) for i, v in enumerate(vals)]
        d2 = {"columns": [{"name": "v", "type": "INT32", "optional": True}, {"name": "rowno", "type": "INT32", "optional": False}],
              "row_groups": [{"pages": [rows]}] if rows else [{"pages": [[]]}]}
        if not rows:
            d2["row_groups"] = []
        open(full, "wb").write(pqwrite.write(d2)[0])
        files.append({"path": [[ord(c) for c in seg] for seg in rel_.split("/")], "rows": [[f"i:{v}", f"i:{i}"] for v, i in rows]})
    pats = [["d/*.parquet"], ["d/f?.parquet"], ["d/f[12].parquet"], ["d/**/*.parquet"], ["d/sub/*.parquet"], ["d/**/f[3-4].parquet"],
            ["d/f1.parquet", "d/g1.parquet"], ["d/f1.parquet", "d/f1.parquet"], ["d/[fg]1.parquet"], ["d/*/*/*.parquet"], ["d/f1.parquet"],
            ["d/**"], ["d/sub/**"], ["d/sub/deep/**"]]
    for pl in pats:
        RDIR = os.path.relpath(DIR, vlib.VERIF)      # globs are resolved relative to the driver's cwd (/verif)
        arg = ("[" + ", ".join(f"'{os.path.join(RDIR, p)}'" for p in pl) + "]") if len(pl) > 1 else f"'{os.path.join(RDIR, pl[0])}'"
        for parts in (1, 3):
            cid = len(cases)
            cases.append({"id": cid, "rt": {"kind": "threaded", "threads": 2}, "timeout": 60,
                          "steps": [{"sql": f"SET partitions = {parts}"}, {"sql": f"SELECT v, rowno FROM read_parquet({arg})"}]})
            meta[cid] = {"kind": "multi", "pats": [[[ord(c) for c in seg] for seg in p.split("/")] for p in pl], "files": files, "types": ["Int32", "Int32"],
                         "pattern": pl}
    # recorded finding KF-GLOB-ABSOLUTE-PATH: the same glob with an absolute path
    cid = len(cases)
    cases.append({"id": cid, "rt": {"kind": "threaded", "threads": 2}, "timeout": 60,
                  "steps": [{"sql": "SET partitions = 1"}, {"sql": f"SELECT v, rowno FROM read_parquet('{os.path.join(DIR, 'd/f?.parquet')}')"}]})
    meta[cid] = {"kind": "multi", "pats": [[[ord(c) for c in seg] for seg in "d/f?.parquet".split("/")]], "files": files, "types": ["Int32", "Int32"],
                 "pattern": ["<absolute>/d/f?.parquet"]}
    res = vlib.Driver(nworkers=14, case_timeout=60, env={"PWD": vlib.VERIF}).run(cases)

    def obs_of(o):
        if o.get("outcome") == "rows":
            return {"outcome": "rows", "types": [t for _, t in o["schema"]], "rows": [[canon_observed(v) for v in row] for row in o["rows"]]}
        return {"outcome": o.get("outcome"), "types": [], "rows": [], "msg": (o.get("msg") or "")[:200]}
    lmeta = {}
    for c, r in zip(cases, res):
        m = meta[c["id"]]
        dead = r is None or "steps" not in r
        steps = [] if dead else r["steps"][1:]
        nq = len(c["steps"]) - 1
        for qi in range(nq):
            o = {"outcome": "abort" if (r or {}).get("abort") else "timeout"} if dead else steps[qi][-1]
            lid = len(lines)
            base = {"id": lid, "kind": m["kind"], "rows": m.get("rows", []), "types": m["types"], "ordered": False, "keep": [],
                    "vals": m.get("vals", []), "pred": {"op": "none", "c": 0}, "files": m.get("files", []), "pats": m.get("pats", []), "obs": obs_of(o)}
            if m["kind"] == "filter":
                op, cst = m["preds"][qi]
                base["pred"] = {"op": op, "c": m["rank_of"][cst] if cst is not None else 0}
            if m["kind"] == "read":
                base["ordered"] = True
            lines.append(base)
            lmeta[lid] = dict(m, query=c["steps"][qi + 1]["sql"])
    rep.cov["evaluations"] = len(lines)
    wd = vlib.workdir("C11-tv")
    chunks = [lines[i:i + 4000] for i in range(0, len(lines), 4000)]
    mism = []

    def one(ci):
        path = os.path.join(wd, f"trace{ci}.ndjson")
        vlib.write_ndjson(path, chunks[ci])
        return ci, vlib.tlc("TraceParquet", "SPECIFICATION TSpec\nPOSTCONDITION Accepted\nCHECK_DEADLOCK FALSE\n", f"C11-tv{ci}",
                            env={"TRACE": path}, workers=1, timeout=1700, deque=True, heap="3g")
    with concurrent.futures.ThreadPoolExecutor(max_workers=6) as ex:
        for ci, r in ex.map(one, range(len(chunks))):
            if r.error or not r.ok:
                rep.tool_error(f"TraceParquet chunk {ci}: {r.error or r.violated}: {r.out[-800:]}")
                continue
            rep.add_tlc(r, f"TV pushdown#{ci}", trace_lines=len(chunks[ci]))
            mism += [p for p in r.printed if isinstance(p, dict) and "mismatch" in p]
    for mm in mism:
        m = lmeta[mm["mismatch"]]
        ln = lines[mm["mismatch"]]
        sig = {"family": "scan", "kind": m["kind"], "why": mm["why"], "observed": ln["obs"]["outcome"]}
        if m["kind"] == "filter":
            sig.update(type=m["type"], stats="+".join(sorted(set(m["stats"]))), op=ln["pred"]["op"])
        if m["kind"] == "multi":
            sig["pattern"] = " ".join(m["pattern"])
        if ln["obs"]["outcome"] != "rows":
            sig["msg"] = vlib.re.sub(r"\d+", "#", ln["obs"].get("msg", ""))[:120]
        rep.mismatch(sig, {"query": m["query"], "observed": ln["obs"], "expected_logical_rows": m.get("rows"), "stats": m.get("stats")})
    rep.cov["distinct_nontrivial"] = sum(1 for l in lines if l["obs"]["outcome"] == "rows" and l["obs"]["rows"])
    rep.cov["samples"] = [{"query": lmeta[i]["query"], "observed": lines[i]["obs"]["rows"][:4]} for i in (0, len(lines) // 2, len(lines) - 1)]
    rep.cov["rule"] = ("(a) Parquet files with controlled row-group statistics (exact, absent, wider than exact, null count only, min only, max only, new-style "
                       "fields only, no null count, all-NULL groups) over signed, unsigned (UINT_32 with the high bit set), 64-bit, text and "
                       "double columns, queried with every comparison against constants inside, at and beyond the value range plus IS [NOT] NULL: "
                       "TLC computes which logical rows satisfy the predicate (on order-preserving ranks) and requires exactly those; "
                       "(b) projections (subsets, reorderings, repeated columns), and projections combined with a pushed filter on a column whose position in "
                       "the projection differs from its position in the file (disjoint value ranges per column); (c) file lists and glob patterns (*, ?, [..], ranges, **) over "
                       "a generated directory tree with 1 and 3 partitions: TLC expands the pattern (PathMatch) and requires the bag union of "
                       "the matching files, each once per list entry; non-trivial = non-empty result")
    rep.cov["exhaustive"] = False
    rep.assumptions += ["statistics and values are written by lib/pqwrite.py (trusted)", "rank mapping of values/constants is mechanical"]
    return rep.finish()


def replay(path):
    import c14
    return c14.replay(path)
