"""C03 - results are independent of partitions, batch size, join algorithm and threads."""
import random, json
import vlib, rel, scale


def lattice(tier, rng):
    parts = [1, 2, 3, 8, 16]
    batches = [1, 2, 3, 4, 2048, 8192]
    cfgs = []
    # all pairs (covering design) in quick, full product in thorough
    if tier == "thorough":
        for p in parts:
            for b in batches:
                for h in (True, False):
                    cfgs.append({"partitions": p, "batch_size": b, "hash_joins": h, "threads": rng.choice([1, 2, 16])})
    else:
        for i, p in enumerate(parts):
            for j, b in enumerate(batches):
                if (i + j) % 2 == 0:
                    cfgs.append({"partitions": p, "batch_size": b, "hash_joins": (i + j) % 4 == 0,
                                 "threads": [1, 2, 16][(i + j) % 3]})
    return cfgs


def run(tier):
    rep = vlib.Report("C03", tier)
    rng = random.Random(vlib.seed())
    tables = rel.gen_tables(rep, "C03-gent")
    d1 = rel.gen_select(rep, "C03-gen1", 1)
    nsim, k = (60, 80) if tier == "quick" else (150, 30)
    deep = rel.gen_select(rep, "C03-gensim", 3, simulate=nsim, seed=vlib.seed() + 31, sample_k=k)
    deep = [p for p in deep if p["d"] >= 2]
    qs = d1 + deep
    rng.shuffle(qs)
    if tier == "quick":
        qs = qs[:500]
    dbs = rel.pick_dbs(tables, rng, 5 if tier == "quick" else 6)
    cfgs = lattice(tier, rng)
    base = {"partitions": 1, "batch_size": 2048, "hash_joins": True, "threads": 1}
    run_ = rel.RelRun(rep, "config")
    for qi, p in enumerate(qs):
        db = dbs[qi % len(dbs)]
        a = run_.add(rel.shape(p["q"]), p["q"], db, base)
        if not a:
            continue
        chosen = cfgs if tier == "thorough" and qi % 10 == 0 else rng.sample(cfgs, 3)
        for c in chosen:
            # table chunks hold at most batch_size rows (verif knob), so scans respect the batch size;
            # the engine's own behaviour for chunks larger than a batch is recorded as KF-BATCH-LT-CHUNK
            b = run_.add(rel.shape(p["q"]), p["q"], db, c, extra={"knobs": {"table_chunk_capacity": min(c["batch_size"], 2048)}})
            run_.pairs.append((a["id"], b["id"]))
    # the known finding's deterministic replay: batch_size below the rows of a table chunk
    kf_db = rel.abs_db([[[k], [k]] for k in range(6)], [[[1], [1]]], [[[1], [1]]])
    kfq = {"k": "project", "c": {"k": "filter", "c": {"k": "scan", "t": "A"},
                                 "p": {"k": "cmp", "op": "ge", "l": {"k": "col", "up": 0, "i": 2}, "r": {"k": "lit", "v": [0], "c": "i"}}},
           "es": [{"k": "arith", "op": "add", "l": {"k": "col", "up": 0, "i": 1}, "r": {"k": "lit", "v": [1], "c": "i"}}]}
    run_.add("kf-batch-lt-chunk", kfq, kf_db, {"partitions": 1, "batch_size": 4, "threads": 1})
    run_.execute()
    mism = run_.judge()
    run_.report(mism)
    rep.cov["rule"] = ("each GenSelect query runs under the base configuration and under configurations from the "
                       "(partitions x batch_size x enable_hash_joins x threads) lattice (quick: a covering half of "
                       "all pairs; thorough: full product for every 10th query); each run is judged against "
                       "Algebra.tla and pairwise against the base run; non-trivial = non-empty result")
    rep.cov["configs"] = cfgs[:80]
    # configuration independence at scale: the same formula-built queries under 1-16 partitions, batch sizes 100-8192, table / series sources
    scale.run(rep, tier, ["groupby", "sort2", "joinagg"], "C03")
    rep.cov["exhaustive"] = False
    return rep.finish()


def replay(path):
    import c02
    return c02.replay(path)
