"""C14 - catalog and table contents equal the sequential effect of DDL/DML."""
import json, random, os, concurrent.futures
import vlib

KEYS = [("temp", "t"), ("temp", "u"), ("s1", "t"), ("s1", "u"), ("temp", "v"), ("s1", "v")]


def nm(sch, name):
    return name if sch == "temp" else f"{sch}.{name}"


def stmt_sql(st):
    op = st["op"]
    if op == "create_schema":
        return "CREATE SCHEMA " + ("IF NOT EXISTS " if st["ine"] else "") + "s1"
    if op == "drop_schema":
        return "DROP SCHEMA " + ("IF EXISTS " if st["ie"] else "") + "s1"
    if op == "create_table":
        return "CREATE TEMP TABLE " + ("IF NOT EXISTS " if st["ine"] else "") + nm(st["sch"], st["name"]) + " (a INT)"
    if op == "drop_table":
        return "DROP TABLE " + ("IF EXISTS " if st["ie"] else "") + nm(st["sch"], st["name"])
    if op == "create_view":
        return f"CREATE TEMP VIEW {nm(st['sch'], 'v')} AS SELECT a FROM {nm(st['bsch'], st['bname'])}"
    if op == "insert_values":
        vals = ["(1)"] * st["bag"][0] + ["(2)"] * st["bag"][1]
        return f"INSERT INTO {nm(st['sch'], st['name'])} VALUES " + ", ".join(vals)
    if op == "insert_select":
        return f"INSERT INTO {nm(st['sch'], st['name'])} SELECT a FROM {nm(st['ssch'], st['sname'])}"
    if op == "insert_failing":
        return (f"INSERT INTO {nm(st['sch'], st['name'])} SELECT CAST(CASE WHEN a = 2 THEN 'x' ELSE '1' END AS INT) "
                f"FROM {nm(st['ssch'], st['sname'])}")
    if op == "ctas":
        return ("CREATE TEMP TABLE " + ("IF NOT EXISTS " if st["ine"] else "") + nm(st["sch"], st["name"]) +
                f" AS SELECT a FROM {nm(st['ssch'], st['sname'])}")
    if op == "set_part":
        return f"SET partitions = {st['v']}"
    if op == "reset_part":
        return "RESET partitions"
    raise ValueError(op)


def obs_steps(s):
    st = [{"s": s, "sql": "SELECT * FROM list_schemas()"}, {"s": s, "sql": "SELECT * FROM list_tables()"},
          {"s": s, "sql": "SELECT * FROM list_views()"}, {"s": s, "sql": "SHOW partitions"}]
    for sch, name in KEYS:
        st.append({"s": s, "sql": f"SELECT a FROM {nm(sch, name)}"})
    return st


NOBS = 4 + len(KEYS)


def project(steps, default_part):
    """10 observation statements of one session -> projected state (what TraceCatalog.ObsProj reads)."""
    def rows(i):
        o = steps[i][-1]
        return o["rows"] if o.get("outcome") == "rows" else None
    schemas = sorted(r[1] for r in (rows(0) or []) if r[0] == "temp")
    tabs = {(r[1], r[2]) for r in (rows(1) or []) if r[0] == "temp"}
    views = {(r[1], r[2]) for r in (rows(2) or []) if r[0] == "temp"}
    p = rows(3)
    part = int(p[0][0]) if p else -1
    ents = []
    for i, (sch, name) in enumerate(KEYS):
        r = rows(4 + i)
        kind = "table" if (sch, name) in tabs else "view" if (sch, name) in views else None
        if kind is None:
            if r is not None:
                ents.append([sch, name, "ghost", True, [len(r), 0]])   # readable but not listed
            continue
        if r is None:
            ents.append([sch, name, kind, False, [0, 0]])
        else:
            vals = [x[0] for x in r]
            bad = [v for v in vals if v not in (1, 2)]
            ents.append([sch, name, kind, True, [vals.count(1), vals.count(2)] if not bad else [-1, -1]])
    return {"schemas": schemas, "ents": ents, "part": 0 if part == default_part else part}


def run(tier):
    rep = vlib.Report("C14", tier)
    rng = random.Random(vlib.seed())
    # MC + generation: one run does both (invariants on the model, histories by action constraint)
    nsess, maxlen = ("{1}", 4) if tier == "quick" else ("{1, 2}", 4)
    cfg = (f"SPECIFICATION Spec\nCONSTANTS Sessions = {nsess}\n  MaxLen = {maxlen}\n  MaxRows = 2\nVIEW View\n"
           "CONSTRAINT Small\nACTION_CONSTRAINT EmitHist\nINVARIANTS NoOrphans TempExists FailChangesNothing SelfInsertDoubles\n"
           "PROPERTY Isolation\nCHECK_DEADLOCK FALSE\n")
    g = vlib.tlc("GenCatalog", cfg, "C14-gen", workers=6, timeout=1800, heap="8g")
    if g.error:
        raise vlib.ToolError(f"GenCatalog: {g.error}")
    rep.add_tlc(g, f"MC+GEN Catalog.tla sessions={nsess} histories<= {maxlen}")
    if g.violated:
        rep.mismatch({"family": "mc", "module": "Catalog", "violated": g.violated}, {"tail": g.out[-2000:]})
    hists = [p["h"] for p in g.printed if isinstance(p, dict) and "h" in p]
    exhaustive = True
    limit = 1500 if tier == "quick" else 60000
    if len(hists) > limit:
        rng.shuffle(hists)
        hists = hists[:limit]
        exhaustive = False
    # second session interleavings in quick: replay the same history with a decoy session doing its own DDL
    cases = []
    for i, h in enumerate(hists):
        threads = [1, 2, 4, 8][i % 4]
        steps = []
        decoy = tier == "quick" and i % 3 == 0
        hh = list(h)
        if decoy:
            # session 2 creates same-named objects and changes its setting: must stay invisible to session 1
            extra = [{"s": 2, "stmt": {"op": "create_table", "sch": "temp", "name": "t", "ine": False}},
                     {"s": 2, "stmt": {"op": "insert_values", "sch": "temp", "name": "t", "bag": [1, 1]}},
                     {"s": 2, "stmt": {"op": "set_part", "v": 3}}]
            hh = extra[:1] + hh[:-1] + extra[1:] + hh[-1:]
        for x in hh[:-1]:
            steps.append({"s": x["s"] - 1, "sql": stmt_sql(x["stmt"])})
        npre = len(steps)
        steps += obs_steps(0) + obs_steps(1)
        steps.append({"s": hh[-1]["s"] - 1, "sql": stmt_sql(hh[-1]["stmt"])})
        steps += obs_steps(0) + obs_steps(1)
        last = hh[-1]["stmt"]
        selfins = last["op"] in ("insert_select", "insert_failing") and (last["sch"], last["name"]) == (last["ssch"], last["sname"])
        case = {"id": i, "rt": {"kind": "threaded", "threads": threads}, "sessions": 2, "steps": steps,
                "_h": hh, "_npre": npre, "_threads": threads, "_selfins": selfins, "timeout": 60}
        if selfins or i % 5 == 0:
            # deterministic scheduler at operator-step granularity with one-row table segments: appends and
            # scans of the same table interleave mid-statement (INSERT ... SELECT must read the pre-state)
            parts = [2, 4][i % 2]
            case["rt"] = {"kind": "det", "partitions": parts, "fallback": "rand", "seed": 1 + i, "maxk": 3, "max_steps": 5000}
            case["knobs"] = {"table_chunk_capacity": 1, "table_segment_size": 1}
            case["_threads"] = parts
            steps[npre + 2 * NOBS]["sched"] = True
        cases.append(case)
    send = [{k: v for k, v in c.items() if not k.startswith("_")} for c in cases]
    res = vlib.Driver(nworkers=14, case_timeout=60).run(send)
    lines = []
    for c, r in zip(cases, res):
        rep.cov["evaluations"] += 1
        if r is None or "steps" not in r:
            why = "abort" if r and r.get("abort") else "timeout" if r and r.get("timeout") else "fatal"
            rep.mismatch({"family": "catalog", "why": "outcome", "observed": why,
                          "last": c["_h"][-1]["stmt"]["op"],
                          "msg": vlib.re.sub(r"\d+", "#", " || ".join(p for p in (r or {}).get("panic", []) if p))[:160]},
                         {"history": [stmt_sql(x["stmt"]) for x in c["_h"]], "result": r})
            continue
        st = r["steps"]
        n = c["_npre"]
        oks = [s[-1].get("outcome") == "rows" for s in st[:n]] + [st[n + 2 * NOBS][-1].get("outcome") == "rows"]
        bad = [s[-1] for s in st[:n] + [st[n + 2 * NOBS]] if s[-1].get("outcome") not in ("rows", "error")]
        if bad:
            rep.mismatch({"family": "catalog", "why": "outcome", "observed": bad[0].get("outcome"),
                          "msg": vlib.re.sub(r"\d+", "#", bad[0].get("msg", ""))[:160]},
                         {"history": [stmt_sql(x["stmt"]) for x in c["_h"]]})
            continue
        T = c["_threads"]
        pre = [project(st[n:n + NOBS], T), project(st[n + NOBS:n + 2 * NOBS], T)]
        m = n + 2 * NOBS + 1
        post = [project(st[m:m + NOBS], T), project(st[m + NOBS:m + 2 * NOBS], T)]
        lines.append({"id": c["id"], "h": c["_h"], "oks": oks, "pre": pre, "post": post})
    # judge
    wd = vlib.workdir("C14-tv")
    chunks = [lines[i:i + 3000] for i in range(0, len(lines), 3000)]
    cfgtv = "SPECIFICATION TSpec\nPOSTCONDITION Accepted\nCHECK_DEADLOCK FALSE\n"
    mism = []

    def one(ci):
        path = os.path.join(wd, f"trace{ci}.ndjson")
        vlib.write_ndjson(path, chunks[ci])
        return ci, vlib.tlc("TraceCatalog", cfgtv, f"C14-tv{ci}", env={"TRACE": path}, workers=1, timeout=1500,
                            deque=True, heap="3g")
    with concurrent.futures.ThreadPoolExecutor(max_workers=6) as ex:
        for ci, r in ex.map(one, range(len(chunks))):
            if r.error or not r.ok:
                rep.tool_error(f"TraceCatalog chunk {ci}: {r.error or r.violated}: {r.out[-800:]}")
                continue
            rep.add_tlc(r, f"TV catalog#{ci}", trace_lines=len(chunks[ci]))
            mism += [p for p in r.printed if isinstance(p, dict) and "mismatch" in p]
    byid = {c["id"]: c for c in cases}
    lineby = {l["id"]: l for l in lines}
    distinct = set()
    for l in lines:
        distinct.add(json.dumps(l["h"][-1]["stmt"], sort_keys=True) + json.dumps(l["pre"], sort_keys=True))
    for m in mism:
        c = byid[m["mismatch"]]
        ln = lineby[m["mismatch"]]
        last = c["_h"][-1]["stmt"]
        sig = {"family": "catalog", "why": m["why"], "last": last["op"], "self_insert": c["_selfins"],
               "det": c["rt"]["kind"] == "det"}
        if m["why"] == "outcome":
            exp = m["exp"]["oks"]
            idx = next((i for i, (a, b) in enumerate(zip(exp, ln["oks"])) if a != b), len(exp) - 1)
            sig["stmt"] = c["_h"][idx]["stmt"]["op"]
            sig["expected_ok"] = exp[idx]
        rep.mismatch(sig, {"history": [f"[s{x['s']}] " + stmt_sql(x["stmt"]) for x in c["_h"]],
                           "threads": c["_threads"], "observed_oks": ln["oks"], "observed_post": ln["post"],
                           "expected": m["exp"]})
    rep.cov["distinct_nontrivial"] = len(distinct)
    rep.cov["samples"] = [{"history": [f"[s{x['s']}] " + stmt_sql(x["stmt"]) for x in l["h"]], "oks": l["oks"],
                           "post": l["post"]} for l in lines[:3]]
    rep.cov["rule"] = ("histories = one per transition of Catalog.tla's state graph (TLC BFS with the history hidden by "
                       "VIEW; ACTION_CONSTRAINT prints history . statement for every (catalog state, statement) pair), "
                       "replayed into two real sessions of one engine with 1/2/4/8 worker threads (= default "
                       "partitions); every statement's success is compared with the model and the projected state "
                       "(schemas, tables, views, contents, setting) of both sessions is observed before and after the "
                       "last statement and compared by TraceCatalog.tla; distinct = (last statement, pre-state)")
    rep.cov["exhaustive"] = exhaustive
    rep.cov["histories_generated"] = len([p for p in g.printed if isinstance(p, dict) and "h" in p])
    rep.assumptions += ["statement rendering (stmt_sql) and the state projection via list_*()/SELECT are trusted"]
    return rep.finish()


def replay(path):
    d = json.load(open(path))
    for v in d["violations"][:20]:
        print(json.dumps(v["signature"]))
        print("  ", json.dumps(v["detail"])[:1200])
    return 1
