"""C05 - scalar operators and functions follow their definition on all values."""
import random, json, copy
import vlib, rel

V = [[], [0], [1], [2]]
BV = [[], [0], [1]]


def col(i):
    return {"k": "col", "up": 0, "i": i}


def lit(v, c):
    return {"k": "lit", "v": v, "c": c}


def subst(e, a, b, cls):
    """replace Col(1)/Col(2) by literals (the folded-constant context)"""
    if isinstance(e, dict):
        if e.get("k") == "col":
            return lit(a if e["i"] == 1 else b, cls)
        return {k: subst(v, a, b, cls) for k, v in e.items()}
    if isinstance(e, list):
        return [subst(v, a, b, cls) for v in e]
    return e


def shift(e, off):
    if isinstance(e, dict):
        if e.get("k") == "col" and e["i"] == 2:
            return dict(e, i=2 + off)
        return {k: shift(v, off) for k, v in e.items()}
    if isinstance(e, list):
        return [shift(v, off) for v in e]
    return e


def contexts(x, tab, cls):
    """(context name, query term) for expression x over table tab(a, b)"""
    e = x["e"]
    scan = {"k": "scan", "t": tab}
    out = [("column", {"k": "project", "c": scan, "es": [col(1), col(2), e]})]
    if x["c"] == "b":
        out.append(("where", {"k": "filter", "c": scan, "p": e}))
        out.append(("where_not", {"k": "filter", "c": scan, "p": {"k": "not", "x": e}}))
        # join condition: left row (a, b) x right row (a, b); e over (left.a, right.b)
        out.append(("join_on", {"k": "join", "jt": "inner", "lateral": False, "lw": 2, "rw": 2, "l": scan, "r": scan,
                                "on": shift(e, 2)}))
        out.append(("left_join_on", {"k": "join", "jt": "left", "lateral": False, "lw": 2, "rw": 2, "l": scan, "r": scan,
                                     "on": shift(e, 2)}))
    # under a selection: evaluated only for the rows another predicate keeps
    out.append(("selected", {"k": "project", "c": {"k": "filter", "c": scan, "p": {"k": "notnull", "x": col(2)}}, "es": [col(1), col(2), e]}))
    # inside a CASE branch guarded by another predicate
    nullc = lit([], x["c"])
    out.append(("case_branch", {"k": "project", "c": scan, "es": [col(1), col(2),
                {"k": "case", "whens": [{"c": {"k": "notnull", "x": col(1)}, "t": e}], "els": nullc}]}))
    # duplicated so that common-subexpression elimination fires
    out.append(("dup_cse", {"k": "project", "c": scan, "es": [e, col(1), e, {"k": "isnull", "x": e}]}))
    # against a constant other argument (constant vector)
    for cv in ([[1], []] if cls == "i" else [[1], [0], []]):
        out.append((f"const_arg_{'null' if cv == [] else cv[0]}",
                    {"k": "project", "c": scan, "es": [col(1), subst_second(e, cv, cls)]}))
    return out


def subst_second(e, v, cls):
    if isinstance(e, dict):
        if e.get("k") == "col" and e["i"] == 2:
            return lit(v, cls)
        return {k: subst_second(x, v, cls) for k, x in e.items()}
    if isinstance(e, list):
        return [subst_second(x, v, cls) for x in e]
    return e


def run(tier):
    rep = vlib.Report("C05", tier)
    rng = random.Random(vlib.seed())
    g = rel.gen("GenScalar", {}, "C05-gen")
    rep.add_tlc(g, "GEN scalar expressions")
    exprs = [p for p in g.printed if "e" in p]
    db = {"PI": {"names": ["a", "b"], "cols": ["i", "i"], "rows": [[a, b] for a in V for b in V]},
          "PB": {"names": ["a", "b"], "cols": ["b", "b"], "rows": [[a, b] for a in BV for b in BV]}}
    cfgs = [{"partitions": 1}, {"partitions": 3, "batch_size": 4, "threads": 4},
            {"partitions": 2, "optimizer": False}]
    run_ = rel.RelRun(rep, "scalar")
    for x in exprs:
        tab, cls, dom = ("PI", "i", V) if x["dom"] == "int" else ("PB", "b", BV)
        for ctx, q in contexts(x, tab, cls):
            for ci, c in enumerate(cfgs if tier == "thorough" else cfgs[:2] if ctx in ("column", "where") else [cfgs[hash(ctx) % 3]]):
                chunk = 4 if c.get("batch_size") else None
                run_.add(f"{x['dom']}/{x['n']}/{ctx}", q, db, c, extra={"knobs": {"table_chunk_capacity": chunk}} if chunk else None)
        # folded constants: one statement per argument pair
        for a in dom:
            for b in dom:
                q = {"k": "project", "c": {"k": "values", "rows": [[[1]]], "cols": ["i"]}, "es": [subst(x["e"], a, b, cls)]}
                run_.add(f"{x['dom']}/{x['n']}/constant", q, db, {"partitions": 1})
    run_.execute()
    mism = run_.judge()
    run_.report(mism, nontrivial=lambda it: len(it["obs"]["rows"]) > 0)
    rep.cov["rule"] = ("every expression of GenScalar.tla (three-valued AND/OR/NOT, comparisons, IS [NOT] DISTINCT FROM, IS NULL, "
                       "BETWEEN, IN lists with NULL, CASE incl. nested and guarded, COALESCE, + - * and unary minus) is evaluated "
                       "on ALL argument pairs over {NULL,false,true} resp. {NULL,0,1,2} in every evaluation context: folded "
                       "constant, column, WHERE / WHERE NOT (rows kept = predicate true), inner and left join condition, under a "
                       "selection, inside a CASE branch, duplicated for CSE, against a constant argument; judged by Algebra.EvalE")
    rep.cov["exhaustive"] = True
    rep.assumptions += ["wide values, overflow, casts and strings are the subject of C12, C13, C20"]
    return rep.finish()


def replay(path):
    import c02
    return c02.replay(path)
