"""C09 - correlated subqueries, CTEs and views mean what nested evaluation means."""
import vlib, rel

CFGS = [{"partitions": 1}, {"partitions": 3, "batch_size": 2, "_chunk": 2, "threads": 4},
        {"partitions": 2, "optimizer": False}, {"partitions": 8, "threads": 8},
        {"partitions": 2, "hash_joins": False}, {"partitions": 2, "_style": {"materialized_cte": True}},
        {"partitions": 1, "_style": {"materialized_cte": True}}]


def kf_replays(run_, queries, rng):
    """deterministic replay of the recorded finding KF-COALESCE-SUBQUERY-NLJ-DUP in every run"""
    db = rel.abs_db([[[], [0]], [[1], [1]], [[2], [1]]], [[[0], [1]], [[2], [1]], [[2], [2]]], [[[1], []]])
    for p in queries:
        if p["tag"] == ["scalar_coalesce", "max_lt"]:
            run_.add("/".join(p["tag"]), p["q"], db, {"partitions": 1, "hash_joins": False})


def run(tier):
    return rel.run_tagged(
        "C09", tier, "GenSubquery", {}, "subquery",
        extra_items=kf_replays,
        dbs_fn=lambda tables, rng: rel.pick_dbs(tables, rng, 10 if tier == "quick" else 60),
        cfgs_fn=lambda rng: CFGS,
        rule=("GenSubquery.tla queries (scalar / EXISTS / IN / ANY / ALL x correlation through filter, projection, "
              "aggregate argument, DISTINCT, two nesting levels; lateral joins; CTEs (plain and AS MATERIALIZED) referenced 0-3 times vs. inlined, with filters differing per reference, "
              "nested and nondeterministic CTE bodies) x databases with NULL / duplicate outer values and empty inner "
              "tables x optimizer / join-algorithm / partition configurations; the oracle is nested evaluation "
              "(Algebra.tla EvalE with the outer row in env); non-trivial = non-empty result"))


def replay(path):
    import c02
    return c02.replay(path)
