"""C07 - grouping, aggregates and duplicate elimination are exact per group."""
import vlib, rel, scale

CFGS = [{"partitions": 1}, {"partitions": 3, "batch_size": 2, "_chunk": 2, "threads": 4},
        {"partitions": 8, "threads": 8}, {"partitions": 2, "batch_size": 3, "_chunk": 3, "optimizer": False},
        {"partitions": 3, "threads": 4, "_style": {"split_inserts": True, "longtext": True}},
        {"partitions": 4, "batch_size": 2, "_chunk": 2, "det": {"fallback": "rand", "seed": 7, "maxk": 2}}]


def big_inputs(run_, queries, rng):
    """> 512 groups so hash tables resize during insert and merge; skewed and all-NULL keys."""
    n = 540
    heavy = {("group1", "A", "count_star"), ("group1", "A", "sum"), ("group1", "A", "avg"), ("group2", "A", "count"),
             ("distinct", "A", "all"), ("union", "A", "self"), ("group1", "S", "min_text"), ("group1", "A", "count_distinct"),
             ("rollup", "A", "k1")}
    dbs = {
        "many_groups": rel.abs_db([[[k % 530], [k % 7]] for k in range(n)], [[[1], [1]]], [[[k % 530], [k % 3]] for k in range(n)]),
        "skewed": rel.abs_db([[[0 if k % 10 else k], [k % 3]] for k in range(n)], [[[1], [1]]], [[[k % 2], [k % 3]] for k in range(200)]),
        "all_null_keys": rel.abs_db([[[], [k % 5]] for k in range(120)], [[[1], [1]]], [[[], []] for k in range(50)]),
    }
    for name, db in dbs.items():
        for p in queries:
            t = p["tag"]
            if tuple(t) in heavy:
                for c in ({"partitions": 1}, {"partitions": 8, "batch_size": 64, "threads": 8}):
                    run_.add("/".join(t) + "@" + name, p["q"], db, c, extra={"knobs": {"table_chunk_capacity": 64}})


def run(tier):
    return rel.run_tagged(
        "C07", tier, "GenAgg", {}, "agg",
        dbs_fn=lambda tables, rng: rel.pick_dbs(tables, rng, 8 if tier == "quick" else 10),
        cfgs_fn=lambda rng: CFGS,
        extra_items=big_inputs,
        post=lambda rep, run_: scale.run(rep, tier, ["groupby", "distinct", "union", "countd"], "C07"),
        rule=("GenAgg.tla queries (every aggregate x DISTINCT/FILTER modifier x ungrouped / 1-2 keys / expression key / "
              "empty input / HAVING / ROLLUP / CUBE with GROUPING() / DISTINCT / UNION) x corner-case and seeded "
              "databases x partition / batch / schedule configurations, plus formula-built inputs with > 512 groups, "
              "skewed and all-NULL keys; judged against Algebra.tla; non-trivial = non-empty result"))


def replay(path):
    import c02
    return c02.replay(path)
