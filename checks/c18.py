"""C18 - the announced schema is the schema of the rows produced."""
import json, random, os, re
import vlib

TYPES = [("TINYINT", "1"), ("SMALLINT", "2"), ("INT", "3"), ("BIGINT", "4"), ("UTINYINT", "5"), ("USMALLINT", "6"), ("UINT", "7"),
         ("UBIGINT", "8"), ("REAL", "1.5"), ("DOUBLE", "2.5"), ("DECIMAL(5,2)", "1.25"), ("DECIMAL(18,3)", "2.125"), ("DECIMAL(30,10)", "3.5"),
         ("TEXT", "'t'"), ("BOOLEAN", "true"), ("DATE", "'2020-01-02'"), ("TIMESTAMP", "'2020-01-02 03:04:05'")]
BINOPS = ["+", "-", "*", "/", "%", "=", "<", "||"]
CMP = {"=", "<"}


def parse_type(t):
    m = re.match(r"^(\w+)(?:\((\d+),(-?\d+)\))?", t)
    return {"b": m.group(1), "p": int(m.group(2) or 0), "s": int(m.group(3) or 0)} if m else {"b": t, "p": 0, "s": 0}


def run(tier):
    rep = vlib.Report("C18", tier)
    rng = random.Random(vlib.seed())
    cols = ", ".join(f"c{i} {t}" for i, (t, _) in enumerate(TYPES))
    vals = ", ".join(f"CAST({v} AS {t})" for t, v in TYPES)
    setup = [{"sql": f"CREATE TEMP TABLE tt ({cols})"}, {"sql": f"INSERT INTO tt VALUES ({vals})"},
             {"sql": f"INSERT INTO tt VALUES ({', '.join('NULL' for _ in TYPES)})"},
             {"sql": "CREATE TEMP TABLE t2 (x INT, y TEXT)"}, {"sql": "INSERT INTO t2 VALUES (1, 'a'), (2, NULL)"}]
    stmts = []   # (kind, tag, sql list)
    pairs = [(i, j) for i in range(len(TYPES)) for j in range(len(TYPES))]
    if tier == "quick":
        pairs = [p for p in pairs if p[0] <= p[1] or (p[0] + p[1]) % 3 == 0]
    for i, j in pairs:
        for op in BINOPS:
            e = f"c{i} {op} c{j}"
            # the expression alone, next to other columns, inside a subquery, under an alias, in a WHERE-filtered query
            ctxs = [f"SELECT {e} FROM tt", f"SELECT c0, {e}, c13 FROM tt", f"SELECT z FROM (SELECT {e} AS z FROM tt) q",
                    f"SELECT {e} AS named FROM tt WHERE c14", f"SELECT {e} FROM tt AS a"]
            stmts.append(("expr", f"{TYPES[i][0]} {op} {TYPES[j][0]}", ctxs, op))
        stmts.append(("union", f"{TYPES[i][0]} U {TYPES[j][0]}", [f"SELECT c{i} FROM tt UNION ALL SELECT c{j} FROM tt"], (i, j)))
    misc = ["SELECT * FROM tt", "SELECT count(*), sum(c2), avg(c2), min(c13), max(c10) FROM tt", "SELECT x, count(*) FROM t2 GROUP BY x",
            "SELECT x FROM t2 ORDER BY y LIMIT 1", "SELECT * FROM generate_series(1, 3)", "INSERT INTO t2 VALUES (3, 'c')",
            "CREATE TEMP TABLE t3 AS SELECT x, y FROM t2", "SELECT CASE WHEN x = 1 THEN c10 ELSE c11 END FROM t2, tt",
            "SELECT coalesce(c0, c3) FROM tt", "SELECT -c10, abs(c10), round(c11, 1), c10::DECIMAL(10,4) FROM tt", "SELECT c16, c15 FROM tt",
            "SELECT x FROM t2 WHERE x IN (SELECT x FROM t2)", "SELECT (SELECT max(x) FROM t2), EXISTS (SELECT 1 FROM t2)",
            "SELECT c0 AS \"MyCol\", c1 AS OtherCol, c2 AS \"Other Col\", c3 \"ÜberCol\" FROM tt", "SELECT \"MixedCase\" FROM (SELECT c0 AS \"MixedCase\" FROM tt) q",
            "SELECT c10::DECIMAL(12,4), c10::DECIMAL(4,1), c11::DECIMAL(18,5), c12::DECIMAL(38,2), c0::SMALLINT, c2::BIGINT FROM tt",
            "SELECT c10 FROM tt UNION ALL SELECT c10::DECIMAL(12,4) FROM tt", "SELECT c12 FROM tt UNION SELECT c12::DECIMAL(38,2) FROM tt",
            "VALUES (1, 'a'), (2, 'b')", "SELECT * FROM (VALUES (1), (2.5)) v(x)", "SHOW partitions", "DESCRIBE tt"]
    for q in misc:
        stmts.append(("misc", q[:40], [q], None))
    cases, meta = [], {}
    per = 40
    for k in range(0, len(stmts), per):
        chunk = stmts[k:k + per]
        steps = list(setup)
        for kind, tag, sqls, extra in chunk:
            for q in sqls:
                steps.append({"sql": "DESCRIBE " + q})
                steps.append({"sql": q})
        cid = len(cases)
        cases.append({"id": cid, "rt": {"kind": "threaded", "threads": 2}, "steps": steps, "timeout": 120})
        meta[cid] = chunk
    res = vlib.Driver(nworkers=14, case_timeout=120).run(cases)
    lines, lmeta = [], {}

    def add(rec, info):
        rec["id"] = len(lines)
        for f, d in (("o", {"describe": [], "schema": [], "names": [], "dnames": [], "btypes": [], "sbase": [], "variants": []}), ("ctx", []),
                     ("t", {"b": "", "p": 0, "s": 0}), ("branches", []), ("cls", []), ("outcome", "rows")):
            rec.setdefault(f, d)
        lines.append(rec)
        lmeta[rec["id"]] = info
    for c, r in zip(cases, res):
        if r is None or "steps" not in r:
            add({"kind": "agree", "outcome": "abort" if (r or {}).get("abort") else "timeout"}, {"tag": "session", "sql": "", "msg": json.dumps(r)[:300]})
            continue
        pos = len(setup)
        for kind, tag, sqls, extra in meta[c["id"]]:
            ctx_types = []
            for q in sqls:
                d, o = r["steps"][pos][-1], r["steps"][pos + 1][-1]
                pos += 2
                info = {"tag": tag, "sql": q, "msg": (o.get("msg") or d.get("msg") or "")[:200]}
                if o.get("outcome") == "rows" and d.get("outcome") == "rows":
                    rec = {"kind": "agree", "outcome": "rows",
                           "o": {"describe": [x[1] for x in d["rows"]], "dnames": [x[0] for x in d["rows"]],
                                 "schema": [t for _, t in o["schema"]], "names": [n for n, _ in o["schema"]], "btypes": o["btypes"],
                                 "sbase": [t.split("(")[0] for _, t in o["schema"]],
                                 "variants": o["variants"] + [[] for _ in range(len(o["schema"]) - len(o["variants"]))]}}
                    add(rec, info)
                    ctx_types.append(o["schema"][1 if q.startswith("SELECT c0,") else 0][1])
                elif o.get("outcome") in ("rows", "error") and d.get("outcome") in ("rows", "error"):
                    # DESCRIBE and execution must agree on whether the statement is well-typed (runtime errors excepted)
                    if d.get("outcome") == "error" and o.get("outcome") == "rows" and q.upper().startswith(("SELECT", "WITH")):
                        add({"kind": "agree", "outcome": "describe-fails-but-statement-runs"}, info)
                    # unions and the statement shapes of the misc list cannot fail at run time on these two rows: a schema was
                    # announced, so failing to produce it is a disagreement between the announcement and the execution
                    if d.get("outcome") == "rows" and o.get("outcome") == "error" and kind in ("union", "misc"):
                        add({"kind": "agree", "outcome": "announced-but-execution-fails"}, info)
                else:
                    bad = o if o.get("outcome") not in ("rows", "error") else d
                    add({"kind": "agree", "outcome": bad.get("outcome")}, dict(info, msg=(bad.get("msg") or "")[:200]))
            if kind == "expr" and len(ctx_types) >= 2:
                add({"kind": "determinism", "ctx": ctx_types}, {"tag": tag, "sql": sqls[0], "types": ctx_types})
                cls = ["Boolean"] if extra in CMP else ["Utf8"] if extra == "||" else \
                    ["Int8", "Int16", "Int32", "Int64", "Int128", "UInt8", "UInt16", "UInt32", "UInt64", "UInt128", "Float16", "Float32", "Float64",
                     "Decimal64", "Decimal128", "Date32", "Timestamp", "Interval"]
                add({"kind": "class", "t": parse_type(ctx_types[0]), "cls": cls}, {"tag": tag, "sql": sqls[0], "type": ctx_types[0]})
            if kind == "union" and ctx_types:
                i, j = extra
                ti = parse_type({"REAL": "Float32", "DOUBLE": "Float64"}.get(TYPES[i][0], ""))
                # input types as the engine names them: read from DESCRIBE tt (first agree line of misc) is overkill; map by SQL name
                add({"kind": "unify", "t": parse_type(ctx_types[0]), "branches": [sqltype(TYPES[i][0]), sqltype(TYPES[j][0])]},
                    {"tag": tag, "sql": sqls[0], "type": ctx_types[0]})
    # the recorded finding KF-VALUES-FIRST-ROW-TYPE: VALUES rows are not unified
    kf = vlib.Driver(nworkers=1, case_timeout=30).run([{"id": 0, "rt": {"kind": "threaded", "threads": 1},
                                                       "steps": [{"sql": "SELECT * FROM (VALUES (0), (4294967295)) v(x)"}]}])[0]
    o = kf["steps"][0][-1] if kf and "steps" in kf else {"outcome": "missing"}
    if o.get("outcome") != "rows":
        rep.mismatch({"family": "types", "case": "values_unify"}, {"sql": "SELECT * FROM (VALUES (0), (4294967295)) v(x)", "observed": o})
    rep.cov["evaluations"] = len(lines)
    wd = vlib.workdir("C18-tv")
    path = os.path.join(wd, "trace.ndjson")
    vlib.write_ndjson(path, lines)
    r = vlib.tlc("TraceTypes", "SPECIFICATION TSpec\nPOSTCONDITION Accepted\nCHECK_DEADLOCK FALSE\n", "C18-tv", env={"TRACE": path}, workers=1,
                 timeout=1500, deque=True, heap="4g")
    if r.error or not r.ok:
        rep.tool_error(f"TraceTypes: {r.error or r.violated}: {r.out[-600:]}")
    else:
        rep.add_tlc(r, "TV types", trace_lines=len(lines))
        for mm in [p for p in r.printed if isinstance(p, dict) and "mismatch" in p]:
            i = lmeta[mm["mismatch"]]
            sig = {"family": "types", "why": mm["why"], "tag": i["tag"]}
            if mm["why"] == "unified-type-cannot-hold-branch":
                sig = {"family": "types", "why": mm["why"], "decimal_involved": "DECIMAL" in i["tag"]}
            if mm["why"] == "outcome":
                sig = {"family": "types", "why": "outcome"}
            if mm["why"] == "outcome":
                sig["msg"] = vlib.re.sub(r"\d+", "#", i.get("msg", ""))[:120]
                sig["observed"] = lines[mm["mismatch"]]["outcome"]
            rep.mismatch(sig, i)
    rep.cov["distinct_nontrivial"] = sum(1 for l in lines if l["kind"] == "agree" and l["outcome"] == "rows")
    table = {}
    for l in lines:
        if l["kind"] == "class":
            table[lmeta[l["id"]]["tag"]] = lmeta[l["id"]]["type"]
    rep.cov["result_type_table"] = table
    rep.cov["samples"] = [{"sql": lmeta[l["id"]]["sql"], "kind": l["kind"]} for l in lines[:3]]
    rep.cov["rule"] = ("every binary operator (+ - * / % = < ||) over (quick: 2/3 of) all pairs of 17 column types, each expression in 5 "
                       "surrounding contexts, UNION ALL over all type pairs, plus aggregate / DML / table-function / subquery / VALUES / SHOW / "
                       "DESCRIBE statements: for each statement DESCRIBE, QueryResult.output_schema, every batch's array types and every "
                       "value's variant must agree (names and types incl. decimal (p,s)); the same expression must get the same type in "
                       "every context; a UNION's type must be able to hold both branches; comparison -> Boolean, || -> Utf8, arithmetic -> "
                       "numeric / temporal. The result type per (operator, input types) is recorded in coverage.result_type_table; a "
                       "different-yet-adequate choice is not a violation. non-trivial = the statement is well-typed and returned rows")
    rep.cov["exhaustive"] = tier == "thorough"
    return rep.finish()


SQLTYPE = {"TINYINT": "Int8", "SMALLINT": "Int16", "INT": "Int32", "BIGINT": "Int64", "UTINYINT": "UInt8", "USMALLINT": "UInt16", "UINT": "UInt32",
           "UBIGINT": "UInt64", "REAL": "Float32", "DOUBLE": "Float64", "TEXT": "Utf8", "BOOLEAN": "Boolean", "DATE": "Date32", "TIMESTAMP": "Timestamp"}


def sqltype(t):
    m = re.match(r"DECIMAL\((\d+),(\d+)\)", t)
    if m:
        p, s = int(m.group(1)), int(m.group(2))
        return {"b": "Decimal64" if p <= 18 else "Decimal128", "p": p, "s": s}
    return {"b": SQLTYPE[t], "p": 0, "s": 0}


def replay(path):
    import c14
    return c14.replay(path)
