"""C04 - every schedule terminates with the same result; no wake-up is lost."""
import random, json, itertools
import os
import vlib, rel, conc

MC = [
    ("TaskSched", "SPECIFICATION Spec\nCONSTANTS Tasks = {t1, t2}\n  MaxPolls = 2\n"
     "INVARIANTS TypeOK AtMostOneExecution JobsMatchPc NoLostWake PendingOnlyWhileRunning CompletedNeverRuns "
     "ErrorReachesSink CancelEndsWithError\nPROPERTY WakeLeadsToPoll\nCHECK_DEADLOCK FALSE\n", "task state machine, 2 tasks"),
    ("HashJoinOp", "SPECIFICATION Spec\nCONSTANTS P = 3\n  NeedsDrain = TRUE\n  BuildRows = {0,1,2}\n"
     "INVARIANTS NoLostWake NoParkedOnSetFlag DirectoryExclusive ProbeAfterAllInserted DrainAfterAllProbed "
     "CountsConsistent OutputIsJoin\nPROPERTY Termination\nCHECK_DEADLOCK FALSE\n", "hash join protocol, P=3, draining join"),
    ("HashJoinOp", "SPECIFICATION Spec\nCONSTANTS P = 3\n  NeedsDrain = FALSE\n  BuildRows = {0,1}\n"
     "INVARIANTS NoLostWake NoParkedOnSetFlag DirectoryExclusive ProbeAfterAllInserted CountsConsistent\n"
     "PROPERTY Termination\nCHECK_DEADLOCK FALSE\n", "hash join protocol, P=3, inner join"),
    ("HashAggOp", "SPECIFICATION Spec\nCONSTANTS P = 4\n  Distinct = TRUE\nINVARIANTS TypeOK DistinctMergeReadsAllFlushes DistinctAggReadsAllMerges MergeReadsAllFlushes ScanReadsAllMerges ParkedDisjoint\nPROPERTY Termination\nCHECK_DEADLOCK FALSE\n",
     "hash aggregate protocol, P=4, with DISTINCT aggregates"),
    ("HashAggOp", "SPECIFICATION Spec\nCONSTANTS P = 4\n  Distinct = FALSE\nINVARIANTS TypeOK DistinctMergeReadsAllFlushes DistinctAggReadsAllMerges MergeReadsAllFlushes ScanReadsAllMerges ParkedDisjoint\nPROPERTY Termination\nCHECK_DEADLOCK FALSE\n",
     "hash aggregate protocol, P=4, without DISTINCT aggregates"),
    ("SortMergeOp", "SPECIFICATION Spec\nCONSTANTS P = 3\n  MaxBlocks = 2\nINVARIANTS TypeOK ParkedDisjoint RunsDisjoint AtMostOneDrainer FinalRunIsEverything\nPROPERTY Termination\nCHECK_DEADLOCK FALSE\n", "sort merge queue protocol, P=3, 0-2 sorted blocks per partition"),
]


HA_INV = "TypeOK DistinctMergeReadsAllFlushes DistinctAggReadsAllMerges MergeReadsAllFlushes ScanReadsAllMerges ParkedDisjoint"
MC_THOROUGH = [
    ("HashJoinOp", "SPECIFICATION Spec\nCONSTANTS P = 4\n  NeedsDrain = TRUE\n  BuildRows = {0,1}\n"
     "INVARIANTS NoLostWake NoParkedOnSetFlag DirectoryExclusive ProbeAfterAllInserted DrainAfterAllProbed CountsConsistent OutputIsJoin\n"
     "PROPERTY Termination\nCHECK_DEADLOCK FALSE\n", "hash join protocol, P=4, draining join (1.8 M states)"),
    ("HashAggOp", f"SPECIFICATION Spec\nCONSTANTS P = 6\n  Distinct = TRUE\nINVARIANTS {HA_INV}\nPROPERTY Termination\nCHECK_DEADLOCK FALSE\n",
     "hash aggregate protocol, P=6, with DISTINCT aggregates"),
    ("SortMergeOp", "SPECIFICATION Spec\nCONSTANTS P = 4\n  MaxBlocks = 2\nINVARIANTS TypeOK ParkedDisjoint RunsDisjoint AtMostOneDrainer "
     "FinalRunIsEverything\nPROPERTY Termination\nCHECK_DEADLOCK FALSE\n", "sort merge queue protocol, P=4, 0-2 blocks per partition (0.9 M states)"),
]


def model_check(rep, tier):
    for i, (mod, cfg, label) in enumerate(MC + (MC_THOROUGH if tier == "thorough" else [])):
        r = vlib.tlc(mod, cfg, f"C04-mc{i}", workers=6, timeout=2400, args=["-coverage", "1"], heap="8g")
        if r.error:
            rep.tool_error(f"MC {label}: {r.error}")
            continue
        rep.add_tlc(r, f"MC {label}")
        if r.violated:
            rep.mismatch({"family": "mc", "module": mod, "violated": r.violated, "config": label},
                         {"tlc_tail": r.out[-3000:]})
        never = [a for a, n in r.coverage.items() if n == 0 and a[0].isupper()]
        if "without DISTINCT" in label:      # the DISTINCT phases are unreachable by construction in this configuration
            never = [a for a in never if "Distinct" not in a]
        if never:
            rep.tool_error(f"vacuity: actions never taken in {label}: {never}")


BARRIER_KINDS = ("join", "agg", "distinct", "union", "sort", "with", "limit")


def has_barrier(q):
    if isinstance(q, dict):
        return q.get("k") in BARRIER_KINDS or any(has_barrier(v) for v in q.values())
    if isinstance(q, list):
        return any(has_barrier(v) for v in q)
    return False


def schedules(tier, rng):
    s = [{"fallback": "first"}, {"fallback": "last"}, {"fallback": "consumer"},
         {"fallback": "first", "k": 1}, {"fallback": "last", "k": 2}]
    n = 4 if tier == "quick" else 40
    for i in range(n):
        s.append({"fallback": "rand", "seed": rng.randrange(1, 1 << 30), "maxk": rng.choice([0, 1, 2, 3])})
    return s


def det_family(rep, tier, rng):
    tables = rel.gen_tables(rep, "C04-gent")
    d1 = [p for p in rel.gen_select(rep, "C04-gen1", 1) if has_barrier(p["q"])]
    gj = rel.gen("GenJoin", {"What": '"queries"', "MaxRows": 2, "MaxVal": 1}, "C04-genj")
    rep.add_tlc(gj, "GEN GenJoin queries")
    qs = d1 + [{"q": p["q"], "tag": "/".join(p["tag"])} for p in gj.printed if "q" in p]
    rng.shuffle(qs)
    if tier == "quick":
        qs = qs[:160]
    dbs = rel.pick_dbs(tables, rng, 4 if tier == "quick" else 8)
    scheds = schedules(tier, rng)
    run_ = rel.RelRun(rep, "sched", case_timeout=30)
    for qi, p in enumerate(qs):
        db = dbs[qi % len(dbs)]
        for si in ([qi % len(scheds)] + rng.sample(range(len(scheds)), 2 if tier == "quick" else 6)):
            parts = 1 + (qi + si) % 3
            run_.add(p.get("tag") or rel.shape(p["q"]), p["q"], db, {"partitions": parts, "det": scheds[si], "batch_size": 2},
                     extra={"knobs": {"table_chunk_capacity": 2}})
    # deterministic replay of a recorded finding (KF-LIMIT-LEFTJOIN-HANG): DetSched shows the hang as a state
    run_.add("kf/limit_leftjoin", rel.KF_LIMIT_LEFTJOIN, rel.KF_DB, {"partitions": 2, "det": {"fallback": "first"}})
    run_.execute()
    mism = run_.judge()

    def nontrivial(it):   # some task parked at least once (a Pending poll of a pipeline task)
        sc = it.get("sched") or {}
        return any(s.get("r") == "pending" and s.get("t") != "c" for s in sc.get("steps", []))
    run_.report(mism, nontrivial=nontrivial)
    parked = sum(1 for it in run_.items if nontrivial(it))
    rep.cov["families"]["sched"]["schedules_with_a_parked_task"] = parked


JOIN_SQL = [
    "SELECT * FROM A s1 LEFT JOIN B s2 ON s1.a = s2.a",
    "SELECT * FROM A s1 INNER JOIN B s2 ON s1.a = s2.a AND s1.b < s2.b",
    "SELECT * FROM A s1 RIGHT JOIN B s2 ON s1.a = s2.a",
    "SELECT * FROM A s1 SEMI JOIN B s2 ON s1.a = s2.a",
    "SELECT s1.a, s1.a IN (SELECT a FROM B) FROM A s1",
    "SELECT * FROM A s1 WHERE NOT EXISTS (SELECT 1 FROM B s2 WHERE s1.a = s2.a)",
    "SELECT count(*) FROM A s1 LEFT JOIN B s2 ON s1.a = s2.a LEFT JOIN A s3 ON s2.b = s3.b",
    "SELECT s1.a, count(*), sum(s2.b) FROM A s1 INNER JOIN B s2 ON s1.a = s2.a GROUP BY s1.a",
    "SELECT * FROM A s1 LEFT JOIN B s2 ON s1.a = s2.a ORDER BY 1, 2, 3, 4",
    "SELECT * FROM A s1 INNER JOIN (SELECT a FROM B WHERE 1 = 0) s2 ON s1.a = s2.a",
    "SELECT a, count(*), sum(b), count(DISTINCT b) FROM A GROUP BY a",
    "SELECT count(DISTINCT a), sum(b) FROM A",
    "SELECT * FROM A ORDER BY a, b LIMIT 3",
    "SELECT * FROM A s1 INNER JOIN B s2 ON s1.a < s2.a",
    "SELECT * FROM A s1 LEFT JOIN B s2 ON s1.a < s2.a AND s1.b = 1",
    "WITH x AS (SELECT a, b FROM A WHERE b > 0) SELECT * FROM x UNION ALL SELECT * FROM x",
    "SELECT a FROM A UNION SELECT a FROM B",
    "CREATE TEMP TABLE IF NOT EXISTS ctas_t AS SELECT a, b FROM A",
    "INSERT INTO A SELECT a, b FROM B",
]


def threaded_family(rep, tier, rng):
    """Real thread pool, hook events validated against TaskSched / HashJoinOp."""
    n = 40 if tier == "quick" else 400
    cases = []
    for i in range(n):
        rows_a = ", ".join(f"({rng.randrange(0, 6)}, {rng.randrange(0, 4)})" for _ in range(rng.choice([0, 1, 3, 8, 40])))
        rows_b = ", ".join(f"({rng.randrange(0, 6)}, {rng.randrange(0, 4)})" for _ in range(rng.choice([0, 1, 3, 8, 40])))
        steps = [{"sql": "CREATE TEMP TABLE A (a INT, b INT)"}, {"sql": "CREATE TEMP TABLE B (a INT, b INT)"}]
        if rows_a:
            steps.append({"sql": f"INSERT INTO A VALUES {rows_a}"})
        if rows_b:
            steps.append({"sql": f"INSERT INTO B VALUES {rows_b}"})
        parts = rng.choice([1, 2, 3, 4, 8])
        steps += [{"sql": f"SET partitions = {parts}"}, {"sql": f"SET batch_size = {rng.choice([4, 2048])}"}]
        for sql in rng.sample(JOIN_SQL, 5):
            steps.append({"sql": sql})
        if i % 7 == 0:
            steps.append({"sql": "SELECT * FROM A s1 LEFT JOIN B s2 ON s1.a = s2.a", "cancel": True})
        cases.append({"id": i, "rt": {"kind": "threaded", "threads": rng.choice([1, 2, 4, 16])}, "events": True,
                      "knobs": {"table_chunk_capacity": 4}, "steps": steps, "timeout": 60})
    # result back-pressure: many partitions blocked on the single-slot result stream and woken by the consumer while they are
    # returning Pending - the wake-while-running transitions of the task state machine, thousands of times per statement
    nsmall = len(cases)
    for j in range(3 if tier == "quick" else 12):
        nrows = rng.choice([60000, 100000])
        bs = rng.choice([32, 64])
        steps = [{"sql": "CREATE TEMP TABLE big (a INT)"}, {"sql": f"INSERT INTO big SELECT * FROM generate_series(1, {nrows})"},
                 {"sql": f"SET partitions = {rng.choice([8, 16])}"}, {"sql": f"SET batch_size = {bs}"}]
        steps += [{"sql": "SELECT a FROM big"}, {"sql": "SELECT a FROM big WHERE a % 3 = 0"}, {"sql": "SELECT a + 1 FROM big"},
                  {"sql": "SELECT a FROM big"}]
        # table chunks no larger than the batch size (the engine's behaviour otherwise is the recorded finding KF-BATCH-LT-CHUNK)
        cases.append({"id": len(cases), "rt": {"kind": "threaded", "threads": 16}, "events": True, "knobs": {"table_chunk_capacity": bs},
                      "steps": steps, "timeout": 180})
    # the back-pressure sessions record hundreds of thousands of events each: fresh worker processes with a larger memory cap
    res = vlib.Driver(nworkers=6, case_timeout=180, mem_gb=4).run(cases[:nsmall]) + \
        vlib.Driver(nworkers=3, case_timeout=300, mem_gb=10).run(cases[nsmall:])
    task_traces, hj_lines, ha_lines, sm_lines, nstmts, all_events = [], [], [], [], 0, []
    for c, r in zip(cases, res):
        rep.cov["evaluations"] += 1
        if r is None or "steps" not in r:
            why = "abort" if r and r.get("abort") else "timeout" if r and r.get("timeout") else "fatal"
            rep.mismatch({"family": "threaded", "why": "outcome", "observed": why,
                          "msg": vlib.re.sub(r"\d+", "#", " || ".join(p for p in (r or {}).get("panic", []) if p))[:160]},
                         {"case": c, "result": r})
            continue
        failed_stmts = set()
        for idx, st in enumerate(r["steps"]):
            out = st[-1].get("outcome") if st else "missing"
            if out != "rows":
                failed_stmts.add(idx)
            if out not in ("rows", "error"):
                rep.mismatch({"family": "threaded", "why": "outcome", "observed": out,
                              "msg": vlib.re.sub(r"\d+", "#", st[-1].get("msg", ""))[:160]},
                             {"sql": c["steps"][idx]["sql"], "case": c})
        t = conc.task_trace(r.get("events", []), failed_stmts)
        if t:
            task_traces.append(t)
            nstmts += len(r["steps"])
        hj_lines += conc.hashjoin_traces(r.get("events", []), failed_stmts)
        ha_lines += conc.hashagg_traces(r.get("events", []), failed_stmts)
        sm_lines += conc.sortmerge_traces(r.get("events", []), failed_stmts)
        all_events.append(r.get("events", []))
    mm = conc.validate(rep, "TraceTask", conc.join_task_traces(task_traces), "C04-tv-task", "thread-pool task events")
    for m in mm:
        rep.mismatch({"family": "task-trace", "what": m.get("what"), "ev": m.get("ev")}, m)
    mm = conc.validate(rep, "TraceHashJoin", hj_lines, "C04-tv-hj", "hash join protocol events")
    for m in mm:
        rep.mismatch({"family": "hashjoin-trace", "what": m.get("what"), "ev": m.get("ev"), "lab": m.get("lab")}, m)
    mm = conc.validate(rep, "TraceHashAgg", ha_lines, "C04-tv-ha", "hash aggregate protocol events")
    for m in mm:
        rep.mismatch({"family": "hashagg-trace", "what": m.get("what"), "ev": m.get("ev"), "lab": m.get("lab")}, m)
    mm = conc.validate(rep, "TraceSortMerge", sm_lines, "C04-tv-sm", "sort merge queue events")
    for m in mm:
        rep.mismatch({"family": "sortmerge-trace", "what": m.get("what"), "ev": m.get("ev")}, m)
    plines = conc.generic_primitive_lines(all_events)
    mm = conc.validate(rep, "TracePrims", plines, "C04-tv-prims", "waker/count primitives of all operators")
    for m in mm:
        rep.mismatch({"family": "prims-trace", "what": m.get("what"), "ev": m.get("ev")}, m)
    rep.cov["families"]["threaded"] = {"sessions": len(cases), "primitive_events": len(plines), "statements_with_task_events": nstmts,
                                      "hash_join_events": len(hj_lines), "hash_aggregate_events": len(ha_lines), "sort_merge_events": len(sm_lines),
                                      "hash_aggregate_gate_passes": sum(1 for l in ha_lines if l["ev"] == "Pass")}
    if not hj_lines or not task_traces or not ha_lines or not sm_lines:
        rep.tool_error("vacuity: no hook events recorded (are the cfg(glaredb_verif) hooks compiled in?)")
    stores = sum(1 for l in hj_lines if l["ev"] == "Store")
    rep.cov["families"]["threaded"]["hash_join_parkings"] = stores
    rep.cov["distinct_nontrivial"] += stores


def exec_stack_family(rep, tier):
    """Every transition of ExecStack.tla's state graph (one shortest history per state, printed per transition)
    is replayed into the real ExecutionStack through scripted Effects; TraceExecStack.tla re-runs the model
    along what the real stack did (the Effects call it made, the control flow it returned)."""
    total = 0
    for n in ((2, 3) if tier == "quick" else (2, 3, 4)):
        steps = 7 if tier == "quick" else 9
        cfg = (f"SPECIFICATION Spec\nCONSTANTS N = {n}\n  MaxSteps = {steps}\n  AllowMidExhaust = TRUE\nCONSTRAINT Bound\nVIEW View\n"
               "ACTION_CONSTRAINT EmitHist\nINVARIANTS WellFormed NoInternalError FinishedMeansSinkFinalized\n"
               "PROPERTIES PendingKeepsInstruction\nCHECK_DEADLOCK FALSE\n")
        g = vlib.tlc("ExecStack", cfg, f"C04-es{n}", workers=4, timeout=900, args=["-coverage", "1"])
        if g.error:
            rep.tool_error(f"ExecStack N={n}: {g.error}")
            continue
        rep.add_tlc(g, f"MC+GEN ExecStack.tla N={n} (one behaviour per transition)")
        if g.violated:
            rep.mismatch({"family": "mc", "module": "ExecStack", "violated": g.violated}, {"tail": g.out[-2000:]})
        hists = [p["hist"] for p in g.printed if isinstance(p, dict) and "hist" in p]
        cases = [{"id": i, "kind": "exec_stack", "n": n, "polls": [h[2] for h in hist]} for i, hist in enumerate(hists)]
        res = vlib.Driver(nworkers=8, case_timeout=30).run(cases)
        lines = []
        for c, r, hist in zip(cases, res, hists):
            steps_obs = r.get("steps") if r else None
            if steps_obs is None:
                rep.mismatch({"family": "execstack", "why": "outcome", "observed": "abort"}, {"polls": c["polls"], "result": r})
                continue
            lines.append({"id": c["id"], "n": n, "steps": steps_obs, "expect": len(hist)})
        total += len(lines)
        wd = vlib.workdir(f"C04-es-tv{n}")
        path = vlib.os.path.join(wd, "trace.ndjson")
        vlib.write_ndjson(path, lines)
        r = vlib.tlc("TraceExecStack", f"SPECIFICATION TSpec\nPOSTCONDITION Accepted\nCHECK_DEADLOCK FALSE\nCONSTANTS N = {n}\n", f"C04-es-tvrun{n}",
                     env={"TRACE": path}, workers=1, timeout=900, deque=True)
        if r.error or not r.ok:
            rep.tool_error(f"TraceExecStack N={n}: {r.error or r.violated}: {r.out[-500:]}")
            continue
        rep.add_tlc(r, f"TV execution stack N={n}", trace_lines=len(lines))
        for m in [p for p in r.printed if isinstance(p, dict) and "mismatch" in p]:
            rep.mismatch({"family": "execstack", "why": "deviates-from-model", "n": n}, {"polls": cases[m["mismatch"]]["polls"], "observed": m.get("steps"), "step": m.get("step")})
    rep.cov["families"]["execstack"] = {"behaviours_replayed": total}
    rep.cov["evaluations"] += total
    rep.cov["distinct_nontrivial"] += total


DFS_SQL = [
    ("left_join", "SELECT * FROM A s1 LEFT JOIN B s2 ON s1.a = s2.a"),
    ("semi_join", "SELECT * FROM A s1 WHERE s1.a IN (SELECT a FROM B)"),
    ("group_distinct", "SELECT a, count(DISTINCT b), sum(b) FROM A GROUP BY a"),
    ("sort_limit", "SELECT a, b FROM A ORDER BY a DESC, b LIMIT 2"),
    ("union_cte", "WITH x AS (SELECT a FROM A) SELECT * FROM x UNION ALL SELECT a FROM B"),
]


def dfs_family(rep, tier):
    """Poll-granularity interleavings enumerated depth-first over the IMPLEMENTATION's enabled sets (each leaf is a
    re-execution from the start under a choice prefix; pipeline state cannot be snapshotted). Every leaf must
    terminate (no hang state) and return the same bag of rows."""
    budget = 120 if tier == "quick" else 4000
    setup = [{"sql": "CREATE TEMP TABLE A (a INT, b INT)"}, {"sql": "CREATE TEMP TABLE B (a INT, b INT)"},
             {"sql": "INSERT INTO A VALUES (1, 1)"}, {"sql": "INSERT INTO A VALUES (2, NULL)"}, {"sql": "INSERT INTO A VALUES (1, 3)"},
             {"sql": "INSERT INTO B VALUES (1, 5)"}, {"sql": "INSERT INTO B VALUES (3, 6)"}]
    total, parked = 0, 0
    for name, sql in DFS_SQL:
        stack, leaves, results = [[]], 0, {}
        while stack and leaves < budget:
            batch = [stack.pop() for _ in range(min(len(stack), 28))]
            cases = [{"id": i, "rt": {"kind": "det", "partitions": 2, "choices": pre, "fallback": "first", "max_steps": 4000},
                      "steps": setup + [{"sql": sql, "sched": True}], "timeout": 30} for i, pre in enumerate(batch)]
            res = vlib.Driver(nworkers=14, case_timeout=30).run(cases)
            for pre, r in zip(batch, res):
                leaves += 1
                if r is None or "steps" not in r:
                    rep.mismatch({"family": "dfs", "query": name, "observed": "abort"}, {"sql": sql, "choices": pre, "result": r})
                    continue
                o = r["steps"][-1][-1]
                sc = o.get("sched", {})
                counts = sc.get("enabled_counts", [])
                if any(s.get("r") == "pending" and s.get("t") != "c" for s in sc.get("steps", [])):
                    parked += 1
                if o.get("outcome") != "rows":
                    rep.mismatch({"family": "dfs", "query": name, "observed": o.get("outcome"),
                                  "msg": vlib.re.sub(r"\d+", "#", o.get("msg", ""))[:120]},
                                 {"sql": sql, "choices": pre, "schedule": [(s.get("t"), s.get("r")) for s in sc.get("steps", [])]})
                else:
                    key = json.dumps(sorted(json.dumps(x) for x in o["rows"]))
                    results.setdefault(key, pre)
                # siblings along this path (positions beyond the prefix took choice 0)
                for i in range(len(pre), len(counts)):
                    for j in range(1, counts[i]):
                        stack.append(pre + [0] * (i - len(pre)) + [j])
        if len(results) > 1:
            rep.mismatch({"family": "dfs", "query": name, "observed": "schedule-dependent-result"},
                         {"sql": sql, "results": [{"rows": json.loads(k), "choices": v} for k, v in list(results.items())[:4]]})
        total += leaves
        rep.cov["families"].setdefault("dfs", {})[name] = {"leaves": leaves, "exhausted": not stack, "distinct_results": len(results)}
    rep.cov["evaluations"] += total
    rep.cov["distinct_nontrivial"] += parked


def run(tier):
    rep = vlib.Report("C04", tier)
    rng = random.Random(vlib.seed())
    model_check(rep, tier)
    exec_stack_family(rep, tier)
    det_family(rep, tier, rng)
    dfs_family(rep, tier)
    threaded_family(rep, tier, rng)
    rep.cov["rule"] = ("MC: TaskSched.tla and HashJoinOp.tla exhaustively (invariants + liveness); S: barrier-containing "
                       "GenSelect/GenJoin queries replayed on the deterministic scheduler under first/last/consumer-first/"
                       "step-budget/seeded-random schedules, judged by TraceRel (a hang is an inadmissible outcome); "
                       "V: hook events of real thread-pool runs validated by TraceTask.tla and TraceHashJoin.tla; "
                       "non-trivial = a pipeline task parked at least once / a partition parked on a join barrier")
    rep.cov["exhaustive"] = False
    rep.assumptions += ["critical sections under a mutex are atomic", "wasm runtime not bound (cannot be built here)"]
    return rep.finish()


def replay(path):
    import c02
    return c02.replay(path)
