"""C15 - every statement text yields a result or an error; the session survives."""
import json, random, os
import vlib, rel
import c14

SETUP = ["CREATE TEMP TABLE t (a INT, b TEXT)", "INSERT INTO t VALUES (1, 'x'), (2, 'y'), (NULL, 'zz')",
         "CREATE TEMP TABLE u (a INT, b TEXT)", "INSERT INTO u VALUES (1, 'p'), (3, NULL)",
         "CREATE SCHEMA s1", "CREATE TEMP TABLE s1.t (a INT)", "CREATE TEMP VIEW v AS SELECT a FROM t"]

OBS = ["SELECT * FROM list_schemas()", "SELECT * FROM list_tables()", "SELECT * FROM list_views()",
       "SHOW partitions", "SHOW batch_size", "SHOW enable_optimizer", "SHOW enable_hash_joins", "SHOW verify_optimized_plan", "SELECT a, b FROM t", "SELECT a, b FROM u",
       "SELECT a FROM s1.t", "SELECT a FROM v"]
PROBE = "SELECT count(*) FROM (VALUES (1), (2)) p(x)"


def canon(steps):
    """observation statements -> canonical string of the projected state"""
    out = []
    for s in steps:
        o = s[-1]
        if o.get("outcome") == "rows":
            out.append(sorted(json.dumps(r) for r in o["rows"]))
        else:
            out.append("ERR")
    return json.dumps(out)


# (c) statements whose evaluation fails at run time on some row, placed mid-table
RUNTIME = [
    "SELECT 10 / (a - 2) FROM t", "SELECT 10 % (a - 2) FROM t", "SELECT a / 0 FROM t", "SELECT 1 / 0",
    "SELECT CAST(b AS INT) FROM t", "SELECT (a + 2147483646) FROM t", "SELECT (a * 2147483647) FROM t",
    "SELECT -(-2147483648 + a - a) FROM t", "SELECT sum(a + 9223372036854775806) FROM t",
    "SELECT 127::TINYINT + a::TINYINT FROM t", "SELECT CAST(a * 100 AS TINYINT) FROM t",
    "INSERT INTO t SELECT CAST(b AS INT), b FROM t", "INSERT INTO t SELECT 10 / (a - 1), b FROM t",
    "CREATE TEMP TABLE w AS SELECT CAST(b AS INT) AS c FROM t", "SELECT * FROM t WHERE 10 / (a - 1) > 0",
    "SELECT a FROM t ORDER BY 1 / (a - 2)", "SELECT a, count(*) FROM t GROUP BY a / (a - 2)",
    "SELECT * FROM t JOIN u ON 1 / (t.a - 2) = u.a", "SELECT lpad(b, a - 3, 'q') FROM t", "SELECT repeat(b, -1) FROM t",
    "SELECT substring(b, -5, 2) FROM t", "SELECT abs(-2147483648 + a - a) FROM t", "SELECT lcm(9223372036854775807, a) FROM t",
    "SELECT factorial(a * 30) FROM t", "SELECT CAST('2021-02-30' AS DATE)", "SELECT CAST(1e40 AS INT)",
    "SELECT CAST('abc' AS DECIMAL(5,2))", "SELECT 99999.99::DECIMAL(7,2) * 99999.99::DECIMAL(7,2) * 99999.99::DECIMAL(7,2) * 99999.99::DECIMAL(7,2) * 99999.99::DECIMAL(7,2)",
    "SELECT sqrt(-1), ln(0), 1e308 * 10", "SELECT (SELECT a FROM t)", "SELECT a FROM t LIMIT -1", "SELECT a FROM t OFFSET 1",
    "SELECT * FROM read_csv('/nonexistent/file.csv')", "SELECT * FROM read_parquet('/nonexistent/file.parquet')",
    "SELECT * FROM generate_series(1, 3, 0)", "SELECT * FROM generate_series(1, 9223372036854775807) LIMIT 1",
    "SET batch_size = 0", "SET partitions = 100000", "SET enable_optimizer = 'maybe'", "RESET nosuch",
    "SELECT regexp_replace(b, '(', 'x') FROM t", "SELECT b LIKE '\\' FROM t", "SELECT date_part('nosuch', DATE '2020-01-01')",
]

# (b) well-formed but ill-typed / unsupported
ILLTYPED = [
    "SELECT a + b FROM t", "SELECT sum(b) FROM t", "SELECT a FROM t WHERE b", "SELECT a FROM t GROUP BY b",
    "SELECT * FROM t JOIN u ON t.b", "SELECT nosuch(a) FROM t", "SELECT a FROM nosuch", "SELECT nosuch FROM t",
    "SELECT a FROM t, u", "SELECT t.a FROM t AS x", "INSERT INTO t VALUES (1)", "INSERT INTO t VALUES (1, 2, 3)",
    "INSERT INTO v VALUES (1)", "INSERT INTO nosuch VALUES (1)", "CREATE TEMP TABLE t (a INT)", "CREATE TABLE p (a INT)",
    "CREATE TEMP TABLE s9.t (a INT)", "DROP TABLE nosuch", "DROP VIEW v", "CREATE TEMP VIEW v AS SELECT 1",
    "SELECT * FROM t FULL OUTER JOIN u ON t.a = u.a", "SELECT a FROM t EXCEPT SELECT a FROM u",
    "SELECT a FROM t INTERSECT SELECT a FROM u", "SELECT DISTINCT ON (a) a, b FROM t", "SELECT a // 2 FROM t",
    "SELECT a FROM t UNION SELECT b FROM t", "SELECT a FROM t UNION SELECT a, b FROM t", "SELECT count(*) OVER () FROM t",
    "WITH RECURSIVE r AS (SELECT 1) SELECT * FROM r", "SELECT * FROM t WHERE a = (SELECT a, b FROM u)",
    "SELECT a FROM t ORDER BY 5", "SELECT a FROM t GROUP BY 7", "SELECT max(count(*)) FROM t", "SELECT a, count(*) FROM t",
    "ATTACH DATABASE 'x' AS y", "DETACH DATABASE y", "CREATE OR REPLACE TEMP VIEW v AS SELECT 2", "DROP SCHEMA s1 CASCADE",
    "SELECT CAST(a AS NOSUCHTYPE) FROM t", "SELECT a::DECIMAL(50, 2) FROM t", "SELECT a::DECIMAL(5, 9) FROM t",
]


def driver_inputs(rng, n):
    """(d) seed-driven byte strings, deep nesting, very long lists"""
    out = []
    for d in (10, 100, 1000, 5000, 20000):
        out.append("SELECT " + "(" * d + "1" + ")" * d)
        out.append("SELECT " + "-" * d + "1")
        out.append("SELECT " + "NOT " * d + "true")
        out.append("SELECT 1" + " + 1" * d)
        out.append("SELECT " + "CASE WHEN true THEN " * min(d, 2000) + "1" + " END" * min(d, 2000))
        out.append("SELECT * FROM " + "(SELECT * FROM " * min(d, 500) + "t" + ") x" * min(d, 500))
        out.append("SELECT a FROM t WHERE a IN (" + ", ".join(str(i) for i in range(d)) + ")")
        out.append("SELECT " + ", ".join(f"a AS c{i}" for i in range(min(d, 3000))) + " FROM t")
        out.append("VALUES " + ", ".join(f"({i})" for i in range(d)))
        out.append("SELECT '" + "x" * d + "'")
        out.append("SELECT 1 " + "UNION ALL SELECT 1 " * min(d, 300))
    # two statements without a separator / trailing garbage: the error echoes the unparsed tail; multi-byte characters at every
    # offset around typical truncation lengths of such messages
    for cut in (16, 32, 40, 64, 80, 100, 128, 256):
        for off in range(-4, 1):
            out.append("SELECT 1 SELECT '" + "x" * (cut + off - 8) + "é𝄞é𝄞é𝄞" + "'")
            out.append("SELECT a FROM t )" + " " * (cut + off - 2) + "ééééé𝄞𝄞")
    alphabet = list("SELECTFROMWHERE()*,.;'\"-+/=<>! \n\t\x00\\%_$:|&^~[]{}0123456789abctu") + ["é", "𝄞", "‮", "﻿"]
    for i in range(n):
        k = rng.choice([1, 3, 10, 40, 200])
        out.append("".join(rng.choice(alphabet) for _ in range(k)))
    base = ["SELECT a, b FROM t WHERE a > 1", "INSERT INTO t VALUES (3, 'z')", "SELECT count(*) FROM t GROUP BY a"]
    for i in range(n):
        s = list(rng.choice(base))
        for _ in range(rng.choice([1, 2, 3])):
            p = rng.randrange(len(s))
            s[p] = rng.choice(alphabet)
        out.append("".join(s))
    return out


def run(tier):
    rep = vlib.Report("C15", tier)
    rng = random.Random(vlib.seed())
    mc = vlib.tlc("Session", "SPECIFICATION Spec\nCONSTANTS States = {s1, s2, s3}\nINVARIANT AlwaysAlive\n"
                  "PROPERTY ErrorIsStutter\nCHECK_DEADLOCK FALSE\n", "C15-mc", workers=2, timeout=120)
    if mc.error or mc.violated:
        rep.tool_error(f"Session.tla: {mc.error or mc.violated}")
    else:
        rep.add_tlc(mc, "MC Session.tla")
    g = rel.gen("GenMutations", {"Double": "FALSE"}, "C15-gen1", extra_cfg="", timeout=600)
    # rel.gen uses INIT/NEXT; GenMutations defines Init/Next compatible with that
    rep.add_tlc(g, "GEN single token edits (exhaustive)")
    muts = [" ".join(p["toks"]) for p in g.printed if "toks" in p]
    exhaustive = True
    if tier == "quick":
        rng.shuffle(muts)
        muts = muts[:3500]
        exhaustive = False
    else:
        g2 = vlib.tlc("GenMutations", "SPECIFICATION Spec\nINVARIANT Emit\nCONSTANTS Double = TRUE\nCHECK_DEADLOCK FALSE\n",
                      "C15-gen2", workers=1, timeout=900, args=["-simulate", "num=300", "-depth", "3", "-seed", str(vlib.seed())])
        rep.add_tlc(g2, "GEN double token edits (simulate)")
        d2 = [" ".join(p["toks"]) for p in g2.printed if p.get("n") == 2]
        rng.shuffle(d2)
        muts += d2[:40000]
    # the harness materialises whole results: a token edit that turns the bounded series query into an unbounded one asks for
    # 2^63 rows, which exhausts the harness's own memory cap (not a statement about the engine) - such texts are not submitted
    unbounded = vlib.re.compile(r"generate_series\s*\(\s*1\s*,\s*9223372036854775807\s*\)(?!.*LIMIT)", vlib.re.S | vlib.re.I)
    muts = [m for m in muts if not unbounded.search(m)]
    texts = [("mut", m) for m in dict.fromkeys(muts)] + [("runtime", s) for s in RUNTIME] + \
            [("illtyped", s) for s in ILLTYPED] + [("driver", s) for s in driver_inputs(rng, 150 if tier == "quick" else 3000)]
    # sessions of ~30 submissions; every submission is followed by the state observation and a probe
    per = 30
    cases = []
    for i in range(0, len(texts), per):
        chunk = texts[i:i + per]
        steps = [{"sql": s} for s in SETUP + OBS]
        for fam, sql in chunk:
            steps.append({"sql": sql})
            steps += [{"sql": s} for s in OBS]
            steps.append({"sql": PROBE})
        cases.append({"id": len(cases), "rt": {"kind": "threaded", "threads": 2}, "steps": steps, "_chunk": chunk, "_k": len(SETUP),
                      "timeout": 120})
    # the same failing statements in sessions whose settings were changed first: a failure must leave every setting as it was
    failing = [("runtime", s_) for s_ in RUNTIME] + [("illtyped", s_) for s_ in ILLTYPED] + \
              [("illtyped", "SELECT * FROM (SELECT a FROM t INTERSECT SELECT a FROM t) s WHERE false"),
               ("illtyped", "SELECT * FROM (SELECT a FROM t EXCEPT SELECT a FROM u) s WHERE 1 = 0")]
    # statements whose result stream completes while pipelines of the same query are still running (LIMIT reached early):
    # the leftovers finish during the following statements and must not disturb the session
    early = [("early_exit", q_) for q_ in (
        "SELECT a FROM generate_series(1, 3000000) g(a) WHERE a < 0 UNION ALL SELECT a FROM generate_series(1, 50000) h(a) LIMIT 3",
        "SELECT a FROM generate_series(1, 2000000) g(a) WHERE a % 1999999 = 0 UNION ALL SELECT a FROM t LIMIT 1",
        "SELECT * FROM generate_series(1, 5000000) g(a) LIMIT 2",
        "SELECT count(*) FROM generate_series(1, 2000000) g(a) UNION ALL SELECT a FROM generate_series(1, 10000) h(a) LIMIT 5",
        "SELECT g.a FROM generate_series(1, 200000) g(a) JOIN generate_series(1, 200000) h(a) ON g.a = h.a LIMIT 1")]
    for prelude in (["SET partitions = 1"], ["SET partitions = 2", "SET batch_size = 64"]):
        steps = [{"sql": s_} for s_ in SETUP + prelude + OBS]
        for fam, sql in early:
            steps.append({"sql": sql})
            steps += [{"sql": s_} for s_ in OBS]
            steps.append({"sql": PROBE})
        cases.append({"id": len(cases), "rt": {"kind": "threaded", "threads": 2}, "steps": steps, "_chunk": list(early),
                      "_k": len(SETUP) + len(prelude), "timeout": 240})
    for prelude in (["SET verify_optimized_plan = true"], ["SET enable_optimizer = false", "SET partitions = 3"],
                    ["SET enable_hash_joins = false", "SET batch_size = 7"]):
        for i in range(0, len(failing), per):
            chunk = failing[i:i + per]
            steps = [{"sql": s_} for s_ in SETUP + prelude + OBS]
            for fam, sql in chunk:
                steps.append({"sql": sql})
                steps += [{"sql": s_} for s_ in OBS]
                steps.append({"sql": PROBE})
            cases.append({"id": len(cases), "rt": {"kind": "threaded", "threads": 2}, "steps": steps,
                          "_chunk": [(fam + "+settings", sql) for fam, sql in chunk], "_k": len(SETUP) + len(prelude), "timeout": 120})

    def execute(cs):
        send = [{k: v for k, v in c.items() if not k.startswith("_")} for c in cs]
        return vlib.Driver(nworkers=14, case_timeout=120, mem_gb=3).run(send)
    results = execute(cases)
    lines, meta = [], {}
    retry = []
    for c, r in zip(cases, results):
        if r is None or "steps" not in r:
            retry += c["_chunk"]
            continue
        st = r["steps"]
        k = c["_k"]
        pre = canon(st[k:k + len(OBS)])
        pos = k + len(OBS)
        for fam, sql in c["_chunk"]:
            o = st[pos][-1] if pos < len(st) and st[pos] else {"outcome": "missing"}
            if o.get("outcome") == "error" and len(st[pos]) > 1:
                # a text holding several statements: the earlier ones succeeded and may have changed the state before a later
                # one failed; the submission as a whole is then a (partial) success as far as the state is concerned
                o = dict(o, outcome="rows", partial=True)
            post = canon(st[pos + 1:pos + 1 + len(OBS)])
            pr = st[pos + 1 + len(OBS)][-1].get("outcome", "missing") if pos + 1 + len(OBS) < len(st) else "missing"
            lid = len(lines)
            lines.append({"id": lid, "outcome": o.get("outcome"), "pre": pre, "post": post, "probe": pr})
            meta[lid] = (fam, sql, o)
            pre = post
            pos += 2 + len(OBS)
    # a worker died or hung somewhere in these sessions: isolate every submission
    if retry:
        vlib.log(f"[exec] isolating {len(retry)} submissions from crashed/hung sessions")
        singles = []
        for fam, sql in retry:
            steps = [{"sql": s} for s in SETUP + OBS] + [{"sql": sql}] + [{"sql": s} for s in OBS] + [{"sql": PROBE}]
            singles.append({"id": len(singles), "rt": {"kind": "threaded", "threads": 2}, "steps": steps, "timeout": 30,
                            "_chunk": [(fam, sql)]})
        send = [{k: v for k, v in c.items() if not k.startswith("_")} for c in singles]
        res2 = vlib.Driver(nworkers=14, case_timeout=30, mem_gb=3).run(send)
        for c, r in zip(singles, res2):
            fam, sql = c["_chunk"][0]
            lid = len(lines)
            if r is None or "steps" not in r:
                why = "abort" if r and r.get("abort") else "timeout" if r and r.get("timeout") else "fatal"
                msg = " || ".join(p for p in (r or {}).get("panic", []) if p) or (r or {}).get("stderr_tail", "")[-200:]
                lines.append({"id": lid, "outcome": why, "pre": "", "post": "", "probe": "missing"})
                meta[lid] = (fam, sql, {"outcome": why, "msg": msg})
            else:
                st = r["steps"]
                k = len(SETUP)
                o = st[k + len(OBS)][-1]
                lines.append({"id": lid, "outcome": o.get("outcome"), "pre": canon(st[k:k + len(OBS)]),
                              "post": canon(st[k + len(OBS) + 1:k + 2 * len(OBS) + 1]),
                              "probe": st[-1][-1].get("outcome", "missing")})
                meta[lid] = (fam, sql, o)
    rep.cov["evaluations"] = len(lines)
    # judge
    import conc
    wd = vlib.workdir("C15-tv")
    path = os.path.join(wd, "trace.ndjson")
    vlib.write_ndjson(path, lines)
    r = vlib.tlc("TraceSession", "SPECIFICATION TSpec\nPOSTCONDITION Accepted\nCHECK_DEADLOCK FALSE\n", "C15-tv",
                 env={"TRACE": path}, workers=1, timeout=1500, deque=True, heap="4g")
    if r.error or not r.ok:
        rep.tool_error(f"TraceSession: {r.error or r.violated}: {r.out[-600:]}")
    else:
        rep.add_tlc(r, "TV submissions", trace_lines=len(lines))
        for m in [p for p in r.printed if isinstance(p, dict) and "mismatch" in p]:
            fam, sql, o = meta[m["mismatch"]]
            msg = vlib.re.sub(r"\d+", "#", o.get("msg", "") or "")[:160]
            # the panic site identifies the defect (source file + message, numbers blanked)
            sig = {"family": "stmt", "why": m["why"], "observed": o.get("outcome"), "msg": msg}
            if o.get("outcome") in ("timeout", "hang") or m["why"] != "outcome":
                sig["sql"] = vlib.re.sub(r"\d+", "#", sql)[:60]
            rep.mismatch(sig,
                         {"input_family": fam, "sql": sql[:2000], "observation": {k: v for k, v in o.items() if k != "rows"}})
    errs = sum(1 for l in lines if l["outcome"] == "error")
    rep.cov["distinct_nontrivial"] = errs
    rep.cov["outcomes"] = {k: sum(1 for l in lines if l["outcome"] == k) for k in sorted({l["outcome"] for l in lines})}
    rep.cov["samples"] = [{"sql": meta[i][1][:200], "outcome": lines[i]["outcome"]} for i in (0, len(lines) // 2, len(lines) - 1)]
    rep.cov["rule"] = ("inputs = (a) every single-token edit (delete / duplicate / swap / replace by a 39-token alphabet) of "
                       "a 26-statement corpus from GenMutations.tla (thorough: all, plus simulated double edits; quick: a "
                       "seeded sample), (b) well-formed but ill-typed or unsupported statements, (c) statements failing at "
                       "run time on a mid-table row, (d) seeded byte strings, deep nesting and long lists; each is followed "
                       "by an observation of the session's projected state and a probe; TraceSession.tla admits only "
                       "rows|error, requires an unchanged state after an error and a live probe; non-trivial = the "
                       "submission failed (the unchanged-state clause was exercised)")
    rep.cov["exhaustive"] = exhaustive
    return rep.finish()


def replay(path):
    return c14.replay(path)
