"""C10 - reading a valid Parquet file returns exactly the rows it encodes."""
import json, random, os, struct, concurrent.futures
import vlib, pqwrite

DIR = os.path.join(vlib.WORK, "C10-files")

# value ids 1..3 instantiated per (physical type, converted type): boundary values
TYPES = [
    ("INT32", None, "Int32", [-2147483648, 0, 2147483647]),
    ("INT32", "INT_8", "Int8", [-128, -1, 127]),
    ("INT32", "INT_16", "Int16", [-32768, 7, 32767]),
    ("INT32", "UINT_8", "UInt8", [0, 128, 255]),
    ("INT32", "UINT_16", "UInt16", [0, 32768, 65535]),
    ("INT32", "DATE", "Date32", [-719162, 0, 2932896]),
    ("INT64", None, "Int64", [-9223372036854775808, 1, 9223372036854775807]),
    ("INT64", "INT_64", "Int64", [-1, 0, 4294967296]),
    ("DOUBLE", None, "Float64", [-0.0, 1.5, 1.7976931348623157e308]),
    ("FLOAT", None, "Float32", [-1.25, 0.0, 3.4028234663852886e38]),
    ("BOOLEAN", None, "Boolean", [True, False, True]),
    ("BYTE_ARRAY", "UTF8", "Utf8", ["", "short", "a string longer than twelve bytes é𝄞"]),
    ("BYTE_ARRAY", None, "Binary", [b"", b"\x00\xff", b"0123456789abcdef"]),
]


def canon_expected(v, ptype, conv):
    if v is None:
        return "n"
    if ptype == "BOOLEAN":
        return "b:1" if v else "b:0"
    if ptype in ("INT32", "INT64"):
        return f"i:{v}"
    if ptype == "DOUBLE":
        return "f:" + str(struct.unpack("<Q", struct.pack("<d", v))[0])
    if ptype == "FLOAT":
        return "f:" + str(struct.unpack("<I", struct.pack("<f", v))[0])
    b = v.encode() if isinstance(v, str) else bytes(v)
    return "s:" + b.hex()


def canon_observed(v):
    if v is None:
        return "n"
    if isinstance(v, bool):
        return "b:1" if v else "b:0"
    if isinstance(v, int):
        return f"i:{v}"
    if isinstance(v, str):
        return "s:" + v.encode().hex()
    if isinstance(v, dict):
        if "f64" in v:
            return "f:" + str(v["f64"])
        if "f32" in v:
            return "f:" + str(v["f32"])
        if "big" in v:
            return "i:" + v["big"]
        if "bin" in v:
            return "s:" + bytes(v["bin"]).hex()
        if "date32" in v:
            return f"i:{v['date32']}"
        if "badutf8" in v:
            return "badutf8:" + bytes(v["badutf8"]).hex()
    return "?" + json.dumps(v)


def wrap(v, bits):
    v &= (1 << bits) - 1
    return v - (1 << bits) if v >> (bits - 1) else v


def big_value(base, i, ptype, conv):
    """value of row i in a scaled file: the boundary value of its id perturbed by the row number (distinct values,
    deltas of many bit widths incl. wrap-around, strings with shared prefixes)"""
    if ptype == "BOOLEAN":
        return base if i % 3 else not base
    if ptype in ("INT32", "INT64"):
        if conv in ("INT_8", "UINT_8"):
            return base
        if conv in ("INT_16", "UINT_16"):
            return base
        if conv == "DATE":
            return base + (i * 37) % 1000 if base <= 0 else base - (i * 37) % 1000
        return wrap(base + (i * 7919) % 100003 * (1 if i % 2 else -3), 32 if ptype == "INT32" else 64)
    if ptype in ("DOUBLE", "FLOAT"):
        return base if i % 4 == 0 else float(i) / 8.0
    if isinstance(base, str):
        return base[: (i % 5) * 3] + f"-{i % 97:03d}" if i % 7 else base
    return base[: i % 4] + bytes([i % 256, (i * 3) % 256]) if i % 7 else base


def build(f, ti, scale=1):
    """abstract layout + type instantiation -> (pqwrite description, logical rows as canonical strings, type names).
    scale > 1 stretches the layout: every cell becomes `scale` rows (cuts move with it), values are perturbed per row."""
    ptype, conv, tname, vals = TYPES[ti]
    cells = [c for c in f["cells"] for _ in range(scale)]
    if scale == 1:
        col0 = [None if c == 0 else vals[c - 1] for c in cells]
    else:
        col0 = [None if c == 0 or (i % 11 == 10 and f["optional"] and 0 in f["cells"]) else big_value(vals[c - 1], i, ptype, conv)
                for i, c in enumerate(cells)]
    # a second, required INT32 column numbering the rows makes row identity / order observable
    rows = [(col0[i], i) for i in range(len(cells))]
    pcuts, gcuts = {c * scale for c in f["pcuts"]}, {c * scale for c in f["gcuts"]}
    groups, pages, page = [], [], []
    for i, r in enumerate(rows, 1):
        page.append(r)
        if i in pcuts or i == len(rows):
            pages.append(page)
            page = []
            if i in gcuts or i == len(rows):
                groups.append({"pages": pages})
                pages = []
    enc = f.get("enc", "dict" if f["dict"] else "plain")
    desc = {"columns": [{"name": "v", "type": ptype, "optional": bool(f["optional"]) or any(c == 0 for c in cells), "converted": conv},
                        {"name": "rowno", "type": "INT32", "optional": False}],
            "row_groups": groups, "page_version": f["ver"], "dictionary": enc == "dict", "codec": f["codec"], "level_runs": f["runs"],
            "value_encoding": {"delta": "delta", "delta_prefix": "delta", "bss": "bss"}.get(enc, "plain"),
            "delta_strings": "prefix" if enc == "delta_prefix" else "length", "delta_junk_widths": (len(cells) + ti) % 2 == 1,
            "delta_block": (256, 8) if (len(cells) + ti) % 3 == 0 else ((128, 1) if (len(cells) + ti) % 3 == 1 else (128, 4))}
    logical = [[canon_expected(v, ptype, conv), f"i:{i}"] for v, i in rows]
    return desc, logical, [tname, "Int32"]


def run(tier):
    rep = vlib.Report("C10", tier)
    rng = random.Random(vlib.seed())
    mc = vlib.tlc("ParquetLayout", "SPECIFICATION Spec\nCONSTANTS N = 4\n MaxRead = 3\nINVARIANTS PrefixDelivered LayoutFaithful\nCHECK_DEADLOCK FALSE\n",
                  "C10-mc", workers=6, timeout=900)
    if mc.error or mc.violated:
        rep.tool_error(f"ParquetLayout MC: {mc.error or mc.violated}")
    else:
        rep.add_tlc(mc, "MC resumable reader over all layouts / NULL patterns / read sizes (N=4)")
    n, k = (5, 6000) if tier == "quick" else (6, 30000)
    g = vlib.tlc("GenParquet", f"INIT Init\nNEXT Next\nINVARIANT Emit\nCHECK_DEADLOCK FALSE\nCONSTANTS N = {n}\n SampleK = {k}\n",
                 "C10-gen", workers=6, timeout=1500, heap="8g")
    if g.error:
        raise vlib.ToolError(f"GenParquet: {g.error}")
    rep.add_tlc(g, f"GEN abstract Parquet layouts N<={n} (1/{k} sample of all)")
    layouts = [p for p in g.printed if "cells" in p]
    vlib.workdir("C10-files")
    cases, meta = [], {}
    for li, f in enumerate(layouts):
        tis = range(len(TYPES)) if tier == "thorough" else [li % len(TYPES), (li * 7 + 3) % len(TYPES)]
        for ti in tis:
            if TYPES[ti][0] == "BOOLEAN" and f["dict"]:
                continue
            # every 12th (thorough: 4th) layout is also stretched so that pages hold hundreds of values: DELTA blocks
            # and miniblocks, dictionary pages and level runs then cross the default batch size inside a page
            scales = [1]
            if (li * 5 + ti) % (12 if tier == "quick" else 4) == 0:
                scales.append([45, 130, 700][(li + ti) % 3])
            for scale in scales:
                desc, logical, tnames = build(f, ti, scale)
                data, _ = pqwrite.write(desc)
                path = os.path.join(DIR, f"l{li}_t{ti}_s{scale}.parquet")
                with open(path, "wb") as fh:
                    fh.write(data)
                confs = ((2048, 1), (1, 1), (2, 1), (3, 2)) if scale == 1 else ((2048, 1), (100, 1), (33, 2), (8192, 1))
                for bs, parts in confs:
                    steps = [{"sql": f"SET partitions = {parts}"}, {"sql": f"SET batch_size = {bs}"},
                             {"sql": f"SELECT v, rowno FROM read_parquet('{path}')"}]
                    cid = len(cases)
                    cases.append({"id": cid, "rt": {"kind": "threaded", "threads": 2}, "steps": steps, "timeout": 60})
                    meta[cid] = {"layout": f, "type": TYPES[ti][:3], "path": path, "batch_size": bs, "partitions": parts,
                                 "logical": logical, "types": tnames, "scale": scale}
    res = vlib.Driver(nworkers=14, case_timeout=60).run(cases)
    lines = []
    for c, r in zip(cases, res):
        m = meta[c["id"]]
        if r is None or "steps" not in r:
            obs = {"outcome": "abort" if (r or {}).get("abort") else "timeout", "types": [], "rows": []}
            m["msg"] = " || ".join(p for p in (r or {}).get("panic", []) if p)[:200]
        else:
            o = r["steps"][-1][-1]
            if o.get("outcome") == "rows":
                obs = {"outcome": "rows", "types": [t for _, t in o["schema"]], "rows": [[canon_observed(v) for v in row] for row in o["rows"]]}
            else:
                obs = {"outcome": o.get("outcome"), "types": [], "rows": []}
                m["msg"] = (o.get("msg") or "")[:200]
        lines.append({"id": c["id"], "kind": "read", "rows": m["logical"], "types": m["types"], "ordered": m["partitions"] == 1,
                      "keep": [], "obs": obs})
    rep.cov["evaluations"] = len(lines)
    wd = vlib.workdir("C10-tv")
    chunks, cur, cost = [], [], 0
    for ln in lines:
        c = 20 + len(ln["rows"])
        if cur and cost + c > 150000:
            chunks.append(cur)
            cur, cost = [], 0
        cur.append(ln)
        cost += c
    if cur:
        chunks.append(cur)
    mism = []

    def one(ci):
        path = os.path.join(wd, f"trace{ci}.ndjson")
        vlib.write_ndjson(path, chunks[ci])
        return ci, vlib.tlc("TraceParquet", "SPECIFICATION TSpec\nPOSTCONDITION Accepted\nCHECK_DEADLOCK FALSE\n", f"C10-tv{ci}",
                            env={"TRACE": path}, workers=1, timeout=1700, deque=True, heap="3g")
    with concurrent.futures.ThreadPoolExecutor(max_workers=6) as ex:
        for ci, r in ex.map(one, range(len(chunks))):
            if r.error or not r.ok:
                rep.tool_error(f"TraceParquet chunk {ci}: {r.error or r.violated}: {r.out[-800:]}")
                continue
            rep.add_tlc(r, f"TV parquet#{ci}", trace_lines=len(chunks[ci]))
            mism += [p for p in r.printed if isinstance(p, dict) and "mismatch" in p]
    for mm in mism:
        m = meta[mm["mismatch"]]
        f = m["layout"]
        ln = lines[mm["mismatch"]]
        sig = {"family": "parquet", "why": mm["why"], "type": "/".join(str(x) for x in m["type"]), "enc": f.get("enc"), "ver": f["ver"],
               "codec": f["codec"], "runs": f["runs"], "observed": ln["obs"]["outcome"], "msg": vlib.re.sub(r"\d+", "#", m.get("msg", ""))[:120]}
        rep.mismatch(sig, {"path": m["path"], "layout": f, "batch_size": m["batch_size"], "partitions": m["partitions"],
                           "expected": m["logical"], "observed": ln["obs"]})
    rep.cov["distinct_nontrivial"] = len({json.dumps([meta[l["id"]]["layout"], meta[l["id"]]["type"]]) for l in lines
                                          if l["obs"]["outcome"] == "rows" and (meta[l["id"]]["layout"]["pcuts"] or any(c == 0 for c in meta[l["id"]]["layout"]["cells"]))})
    rep.cov["samples"] = [{"layout": meta[l["id"]]["layout"], "type": meta[l["id"]]["type"], "batch_size": meta[l["id"]]["batch_size"],
                           "observed_rows": l["obs"]["rows"]} for l in lines[:2]]
    rep.cov["rule"] = (f"layouts = a 1/{k} random sample of ALL abstract files with <= {n} cells from GenParquet.tla (every NULL pattern, page and "
                       "row-group boundaries, v1/v2 pages, PLAIN / dictionary / DELTA_BINARY_PACKED / DELTA_LENGTH_BYTE_ARRAY / DELTA_BYTE_ARRAY / BYTE_STREAM_SPLIT values, UNCOMPRESSED/GZIP, RLE / bit-packed / mixed level runs) x physical / "
                       "logical types with boundary values (quick: 2 types per layout, thorough: all 13) written by the independent writer "
                       "lib/pqwrite.py, read with batch sizes 1, 2, 3 and 2048 and 1-2 partitions; a subset stretched 45x / 130x / 700x (per-row perturbed values) and read with batch sizes 33, 100, 2048, 8192; TraceParquet.tla requires the same rows in "
                       "file order (bag for 2 partitions), NULL positions and the column types of the type table; non-trivial = the column "
                       "has a page boundary or a NULL")
    rep.cov["exhaustive"] = False
    rep.assumptions += ["byte-level encoding fidelity is relative to the independent writer lib/pqwrite.py (trusted base)",
                        "INT96, FIXED_LEN_BYTE_ARRAY, nested columns and codecs other than GZIP are not produced by the writer"]
    return rep.finish()


def replay(path):
    import c14
    return c14.replay(path)
