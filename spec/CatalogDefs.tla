----------------------------- MODULE CatalogDefs -----------------------------
(* The sequential meaning of DDL / DML / SET over the per-session temporary
   catalog, as one pure function per statement kind:

        Apply(stmt, st) = [ok |-> BOOLEAN, st |-> state after]

   with st = [schemas, ents, part] the state of ONE session. A statement that
   fails returns the state unchanged ("a statement that fails changes nothing");
   sessions share nothing, so applying a statement in one session leaves every
   other session's state - and therefore everything it can observe - untouched.

   Universe: schemas {temp, s1}; table names {t, u}; one view name v; every
   table has one INT column a holding values from {1, 2}; a table's contents is
   the bag <<number of 1s, number of 2s>>.

   Dialect facts (observed on the pinned tree, see DESIGN.md App. B): tables and
   views share one namespace per schema; DROP TABLE removes a table or a view;
   DROP SCHEMA removes the schema with everything in it; a view is expanded
   when it is queried (it may dangle after its base is dropped).              *)
EXTENDS Naturals, Sequences, FiniteSets, TLC

Schemas == {"temp", "s1"}
TNames  == {"t", "u"}
VName   == "v"
NoBase  == <<"", "">>

TableE(bag) == [kind |-> "table", bag |-> bag, base |-> NoBase]
ViewE(base) == [kind |-> "view", bag |-> <<0, 0>>, base |-> base]

EmptyEnts == [k \in {} |-> TableE(<<0, 0>>)]
InitSess  == [schemas |-> {"temp"}, ents |-> EmptyEnts, part |-> 0]     \* part = 0: the default

Add(b1, b2) == <<b1[1] + b2[1], b1[2] + b2[2]>>
Size(b)     == b[1] + b[2]

(* contents an entry denotes: a table's bag, a view's base (expanded when queried) *)
RECURSIVE Rows(_, _, _)
Rows(st, key, fuel) ==
  IF fuel = 0 \/ key \notin DOMAIN st.ents THEN [ok |-> FALSE, bag |-> <<0, 0>>]
  ELSE LET e == st.ents[key] IN
       IF e.kind = "table" THEN [ok |-> TRUE, bag |-> e.bag] ELSE Rows(st, e.base, fuel - 1)
Contents(st, key) == Rows(st, key, 3)

Ok(st)   == [ok |-> TRUE, st |-> st]
Fail(st) == [ok |-> FALSE, st |-> st]
WithEnt(st, key, e) == [st EXCEPT !.ents = [k \in (DOMAIN st.ents) \cup {key} |-> IF k = key THEN e ELSE st.ents[k]]]
WithoutEnts(st, keys) == [st EXCEPT !.ents = [k \in (DOMAIN st.ents) \ keys |-> st.ents[k]]]

Apply(s, st) ==
  CASE s.op = "create_schema" ->
         IF "s1" \in st.schemas THEN (IF s.ine THEN Ok(st) ELSE Fail(st))
         ELSE Ok([st EXCEPT !.schemas = @ \cup {"s1"}])
    [] s.op = "drop_schema" ->
         IF "s1" \notin st.schemas THEN (IF s.ie THEN Ok(st) ELSE Fail(st))
         ELSE Ok(WithoutEnts([st EXCEPT !.schemas = @ \ {"s1"}], {k \in DOMAIN st.ents : k[1] = "s1"}))
    [] s.op = "create_table" ->
         LET key == <<s.sch, s.name>> IN
         IF s.sch \notin st.schemas THEN Fail(st)
         ELSE IF key \in DOMAIN st.ents THEN (IF s.ine THEN Ok(st) ELSE Fail(st))
         ELSE Ok(WithEnt(st, key, TableE(<<0, 0>>)))
    [] s.op = "drop_table" ->
         LET key == <<s.sch, s.name>> IN
         IF key \notin DOMAIN st.ents THEN (IF s.ie THEN Ok(st) ELSE Fail(st))
         ELSE Ok(WithoutEnts(st, {key}))
    [] s.op = "create_view" ->
         LET key == <<s.sch, VName>> IN
         IF s.sch \notin st.schemas \/ key \in DOMAIN st.ents \/ ~Contents(st, <<s.bsch, s.bname>>).ok THEN Fail(st)
         ELSE Ok(WithEnt(st, key, ViewE(<<s.bsch, s.bname>>)))
    [] s.op = "insert_values" ->
         LET key == <<s.sch, s.name>> IN
         IF key \notin DOMAIN st.ents \/ st.ents[key].kind # "table" THEN Fail(st)
         ELSE Ok(WithEnt(st, key, TableE(Add(st.ents[key].bag, s.bag))))
    [] s.op = "insert_select" ->
         (* reads the source as it was when the statement started, also when it is the target *)
         LET key == <<s.sch, s.name>>  src == Contents(st, <<s.ssch, s.sname>>) IN
         IF key \notin DOMAIN st.ents \/ st.ents[key].kind # "table" \/ ~src.ok THEN Fail(st)
         ELSE Ok(WithEnt(st, key, TableE(Add(st.ents[key].bag, src.bag))))
    [] s.op = "insert_failing" ->
         (* INSERT ... SELECT whose expression fails on the rows holding 2 *)
         LET key == <<s.sch, s.name>>  src == Contents(st, <<s.ssch, s.sname>>) IN
         IF key \notin DOMAIN st.ents \/ st.ents[key].kind # "table" \/ ~src.ok \/ src.bag[2] > 0 THEN Fail(st)
         ELSE Ok(WithEnt(st, key, TableE(Add(st.ents[key].bag, <<src.bag[1], 0>>))))
    [] s.op = "ctas" ->
         LET key == <<s.sch, s.name>>  src == Contents(st, <<s.ssch, s.sname>>) IN
         IF s.sch \notin st.schemas \/ ~src.ok THEN Fail(st)
         ELSE IF key \in DOMAIN st.ents THEN (IF s.ine THEN Ok(st) ELSE Fail(st))
         ELSE Ok(WithEnt(st, key, TableE(src.bag)))
    [] s.op = "set_part" -> IF s.v = 0 THEN Fail(st) ELSE Ok([st EXCEPT !.part = s.v])
    [] s.op = "reset_part" -> Ok([st EXCEPT !.part = 0])

(* ------------------------------ statement universe ------------------------------ *)
Tabs == Schemas \X TNames
Srcs == (Schemas \X TNames) \cup (Schemas \X {VName})
Stmts ==
     { [op |-> "create_schema", ine |-> b] : b \in BOOLEAN }
\cup { [op |-> "drop_schema", ie |-> b] : b \in BOOLEAN }
\cup { [op |-> "create_table", sch |-> k[1], name |-> k[2], ine |-> b] : k \in Tabs, b \in BOOLEAN }
\cup { [op |-> "drop_table", sch |-> k[1], name |-> k[2], ie |-> b] : k \in Srcs, b \in BOOLEAN }
\cup { [op |-> "create_view", sch |-> sc, bsch |-> k[1], bname |-> k[2]] : sc \in Schemas, k \in Srcs }
\cup { [op |-> "insert_values", sch |-> k[1], name |-> k[2], bag |-> b] : k \in Tabs, b \in {<<1, 0>>, <<1, 1>>} }
\cup { [op |-> "insert_select", sch |-> k[1], name |-> k[2], ssch |-> q[1], sname |-> q[2]] : k \in Tabs, q \in Srcs }
\cup { [op |-> "insert_failing", sch |-> k[1], name |-> k[2], ssch |-> q[1], sname |-> q[2]] : k \in Tabs, q \in Tabs }
\cup { [op |-> "ctas", sch |-> k[1], name |-> k[2], ssch |-> q[1], sname |-> q[2], ine |-> b] : k \in Tabs, q \in Srcs, b \in BOOLEAN }
\cup { [op |-> "set_part", v |-> x] : x \in {0, 3} }
\cup { [op |-> "reset_part"] }

=============================================================================
