------------------------------ MODULE TaskSched ------------------------------
(* The thread-pool task state machine of glaredb_rt_native/src/threaded/
   {task.rs, handle.rs}: one action per critical section under `sched_state`
   (TaskState::schedule, the tail of the spawned loop, ThreadedQueryHandle::
   cancel) plus the begin/end of TaskState::execute (which runs under the
   pipeline mutex).

   The environment may wake any task at any time from any thread (operators
   wake wakers while holding their own locks), including spuriously and
   repeatedly.                                                                *)
EXTENDS Naturals, FiniteSets

CONSTANTS Tasks,
          MaxPolls       \* a task completes after at most this many productive polls

VARIABLES running, pending, completed, canceled,  \* ScheduleState, per task
          jobs,        \* per task: pool jobs (spawned loops) alive: queued or running
          pc,          \* per task: "idle" | "queued" | "exec" | "post"
          res,         \* per task: result of the last execute(): "none" | "pending" | "ok" | "err"
          left,        \* per task: productive polls left before Ready(Ok)
          errSink,     \* "none" | "err" | "canceled"  (set_error overwrites)
          cancelPc,    \* per task: "none" | "marked" | "done"   (progress of handle.cancel())
          unserved,    \* ghost, per task: a wake arrived after the last execute() began
          polledAfterEnd  \* ghost: a task was polled again after it returned Ready(_)

vars == <<running, pending, completed, canceled, jobs, pc, res, left, errSink, cancelPc,
          unserved, polledAfterEnd>>

Init ==
  /\ running = [t \in Tasks |-> FALSE] /\ pending = [t \in Tasks |-> FALSE]
  /\ completed = [t \in Tasks |-> FALSE] /\ canceled = [t \in Tasks |-> FALSE]
  /\ jobs = [t \in Tasks |-> 0] /\ pc = [t \in Tasks |-> "idle"]
  /\ res = [t \in Tasks |-> "none"] /\ left \in [Tasks -> 1..MaxPolls]
  /\ errSink = "none" /\ cancelPc = [t \in Tasks |-> "none"]
  /\ unserved = [t \in Tasks |-> FALSE] /\ polledAfterEnd = FALSE

(* TaskState::schedule — one critical section. `who` is only a label. *)
Schedule(t) ==
  /\ IF completed[t] THEN
          UNCHANGED <<running, pending, jobs, pc, errSink, unserved>>
     ELSE IF canceled[t] THEN
          /\ errSink' = "canceled"
          /\ UNCHANGED <<running, pending, jobs, pc, unserved>>
     ELSE IF running[t] THEN
          /\ pending' = [pending EXCEPT ![t] = TRUE]
          /\ unserved' = [unserved EXCEPT ![t] = TRUE]
          /\ UNCHANGED <<running, jobs, pc, errSink>>
     ELSE /\ running' = [running EXCEPT ![t] = TRUE]
          /\ jobs' = [jobs EXCEPT ![t] = @ + 1]
          /\ pc' = [pc EXCEPT ![t] = "queued"]
          /\ unserved' = [unserved EXCEPT ![t] = TRUE]
          /\ UNCHANGED <<pending, errSink>>
  /\ UNCHANGED <<completed, canceled, res, left, cancelPc, polledAfterEnd>>

(* the environment: any thread wakes the task *)
Wake(t) == Schedule(t)

(* a pool thread picks the job up and enters execute() (takes the pipeline lock) *)
ExecBegin(t) ==
  /\ pc[t] = "queued"
  /\ pc' = [pc EXCEPT ![t] = "exec"]
  /\ unserved' = [unserved EXCEPT ![t] = FALSE]
  /\ polledAfterEnd' = (polledAfterEnd \/ res[t] \in {"ok", "err"})
  /\ UNCHANGED <<running, pending, completed, canceled, jobs, res, left, errSink, cancelPc>>

(* execute() returns: Pending, Ready(Ok) or Ready(Err) *)
ExecEnd(t) ==
  /\ pc[t] = "exec"
  /\ \/ /\ left[t] > 1                       \* not done yet: Pending
        /\ res' = [res EXCEPT ![t] = "pending"]
        /\ \/ left' = [left EXCEPT ![t] = @ - 1]
           \/ UNCHANGED left                  \* an unproductive (spurious) poll
        /\ UNCHANGED errSink
     \/ /\ left[t] = 1                       \* Ready(Ok)
        /\ res' = [res EXCEPT ![t] = "ok"]
        /\ left' = [left EXCEPT ![t] = 0]
        /\ UNCHANGED errSink
     \/ /\ left[t] >= 1                      \* Ready(Err): errors.set_error(e)
        /\ res' = [res EXCEPT ![t] = "err"]
        /\ errSink' = "err"
        /\ UNCHANGED left
     \/ /\ left[t] = 0                       \* polled after completion: the pipeline answers with an error
        /\ res' = [res EXCEPT ![t] = "err"]
        /\ errSink' = "err"
        /\ UNCHANGED left
  /\ pc' = [pc EXCEPT ![t] = "post"]
  /\ UNCHANGED <<running, pending, completed, canceled, jobs, cancelPc, unserved, polledAfterEnd>>

(* the tail of the spawned loop — one critical section *)
Post(t) ==
  /\ pc[t] = "post"
  /\ LET c == (res[t] = "ok") IN
     /\ completed' = [completed EXCEPT ![t] = c]
     /\ IF pending[t] THEN
             /\ pending' = [pending EXCEPT ![t] = FALSE]
             /\ IF c THEN /\ pc' = [pc EXCEPT ![t] = "idle"]          \* break, running stays true
                          /\ jobs' = [jobs EXCEPT ![t] = @ - 1]
                     ELSE /\ pc' = [pc EXCEPT ![t] = "queued"]        \* continue: execute again
                          /\ UNCHANGED jobs
             /\ UNCHANGED running
        ELSE /\ running' = [running EXCEPT ![t] = FALSE]
             /\ pc' = [pc EXCEPT ![t] = "idle"]
             /\ jobs' = [jobs EXCEPT ![t] = @ - 1]
             /\ UNCHANGED pending
  /\ UNCHANGED <<canceled, res, left, errSink, cancelPc, unserved, polledAfterEnd>>

(* ThreadedQueryHandle::cancel: per task, mark under the lock, then schedule() *)
CancelMark(t) ==
  /\ cancelPc[t] = "none"
  /\ \A u \in Tasks : cancelPc[u] = "none" \/ cancelPc[u] = "done" \/ u = t
  /\ canceled' = [canceled EXCEPT ![t] = TRUE]
  /\ cancelPc' = [cancelPc EXCEPT ![t] = "marked"]
  /\ UNCHANGED <<running, pending, completed, jobs, pc, res, left, errSink, unserved, polledAfterEnd>>
CancelSched(t) ==
  /\ cancelPc[t] = "marked"
  /\ IF completed[t] THEN UNCHANGED errSink ELSE errSink' = "canceled"
  /\ cancelPc' = [cancelPc EXCEPT ![t] = "done"]
  /\ UNCHANGED <<running, pending, completed, canceled, jobs, pc, res, left, unserved, polledAfterEnd>>

Next == \E t \in Tasks : Wake(t) \/ ExecBegin(t) \/ ExecEnd(t) \/ Post(t) \/ CancelMark(t) \/ CancelSched(t)

Fairness == \A t \in Tasks : WF_vars(ExecBegin(t)) /\ WF_vars(ExecEnd(t)) /\ WF_vars(Post(t))
Spec == Init /\ [][Next]_vars /\ Fairness

(* ------------------------------- properties ------------------------------- *)
TypeOK ==
  /\ \A t \in Tasks : jobs[t] \in 0..2 /\ pc[t] \in {"idle", "queued", "exec", "post"}

(* never two pool jobs for one task: the pipeline is polled by one thread at a time *)
AtMostOneExecution == \A t \in Tasks : jobs[t] <= 1

(* the spawned loop is alive exactly while pc says so *)
JobsMatchPc == \A t \in Tasks : (pc[t] = "idle") = (jobs[t] = 0)

(* no lost wake-up: when a task is idle and neither completed nor canceled,
   no wake that arrived after its last poll began is left unserved            *)
NoLostWake ==
  \A t \in Tasks : (pc[t] = "idle" /\ ~completed[t] /\ ~canceled[t]) => ~unserved[t]

(* a wake while running is remembered *)
PendingOnlyWhileRunning == \A t \in Tasks : pending[t] => running[t]

(* a task that returned Ready(Ok) is never executed again *)
CompletedNeverRuns == \A t \in Tasks : completed[t] => pc[t] \in {"idle"}

(* an error in any task reaches the sink (until overwritten by a cancel) *)
ErrorReachesSink == \A t \in Tasks : (res[t] = "err" /\ pc[t] \in {"post", "idle"}) => errSink # "none"

(* cancel: once handle.cancel() has finished, the sink holds an error unless every task had completed *)
CancelEndsWithError ==
  (\A t \in Tasks : cancelPc[t] = "done") => (errSink # "none" \/ \A t \in Tasks : completed[t])

(* the property's reading "a finished task is never run again", with an errored
   task counted as finished. The code does NOT guarantee this (execute()
   returns "not completed" on Ready(Err)); checked in a separate configuration
   and documented in DESIGN.md.                                               *)
FinishedNeverRuns == ~polledAfterEnd

(* liveness: an unserved wake leads to another poll, unless completed/canceled *)
WakeLeadsToPoll ==
  \A t \in Tasks : (unserved[t] /\ ~completed[t] /\ ~canceled[t]) ~> (~unserved[t] \/ completed[t] \/ canceled[t])
=============================================================================
