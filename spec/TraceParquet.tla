----------------------------- MODULE TraceParquet -----------------------------
(* Verdict-style validation for C10 / C11. Cells travel as canonical strings
   ("n" for NULL, "i:<int>", "b:0|1", "f:<ieee bits>", "s:<hex bytes>"), produced
   mechanically from the file description on one side and from the engine's
   values on the other; what is judged here is structure: same rows, in file
   order for a single-partition read of one file, as a bag otherwise; announced
   column types as the type table prescribes; with a predicate, exactly the rows
   satisfying it (pushdown and statistics may only skip work).

   Lines: [id, kind = "read" | "filter" | "multi",
           rows = << <<cell>> >> logical rows, types = << type name >>, ordered,
           keep = << BOOLEAN per logical row >> (filter: does the row satisfy the predicate),
           obs = [outcome, types, rows]]                                          *)
EXTENDS Naturals, Sequences, FiniteSets, TLC, Json, IOUtils
Rec == ndJsonDeserialize(IOEnv.TRACE)
VARIABLE l
Count(s, x) == Cardinality({i \in DOMAIN s : s[i] = x})
SeqRange(s) == {s[i] : i \in DOMAIN s}
BagEq(a, b) == /\ Len(a) = Len(b)
               /\ LET ra == SeqRange(a) rb == SeqRange(b) IN
                  IF Cardinality(ra) = Len(a) THEN ra = rb           \* all rows distinct: bag equality is set equality
                  ELSE \A x \in ra \cup rb : Count(a, x) = Count(b, x)
(* filter: vals[i] is the predicate column's value of logical row i as an order-preserving rank (<<>> = NULL),
   pred = [op, c]; SQL keeps a row only when the comparison is TRUE (a NULL never qualifies)          *)
Rel(op, x, y) == CASE op = "eq" -> x = y [] op = "ne" -> x # y [] op = "lt" -> x < y [] op = "le" -> x <= y
                   [] op = "gt" -> x > y [] op = "ge" -> x >= y
Keep(r, i) == CASE r.pred.op = "isnull" -> r.vals[i] = <<>>
                [] r.pred.op = "notnull" -> r.vals[i] # <<>>
                [] OTHER -> r.vals[i] # <<>> /\ Rel(r.pred.op, r.vals[i][1], r.pred.c)
Kept(r) == LET idx == SelectSeq([i \in 1..Len(r.rows) |-> i], LAMBDA i : Keep(r, i)) IN [j \in 1..Len(idx) |-> r.rows[idx[j]]]

(* ---- glob expansion (multi-file scans): a path and a pattern are sequences of segments (code point
        sequences); within a segment * matches any run of characters, ? one character, [..] a class
        (members and a-z ranges); a segment that is exactly ** matches zero or more directories ---- *)
STAR == 42  QM == 63  LB == 91  RB == 93  DASH == 45
RECURSIVE InClass(_, _)
InClass(c, cls) ==   \* cls: the characters between [ and ]
  IF cls = <<>> THEN FALSE
  ELSE IF Len(cls) >= 3 /\ cls[2] = DASH THEN (c >= cls[1] /\ c <= cls[3]) \/ InClass(c, SubSeq(cls, 4, Len(cls)))
  ELSE c = cls[1] \/ InClass(c, Tail(cls))
ClassEnd(p) == CHOOSE i \in 2..Len(p) : p[i] = RB /\ \A j \in 2..(i - 1) : p[j] # RB
RECURSIVE SegMatch(_, _)
SegMatch(s, p) ==
  IF p = <<>> THEN s = <<>>
  ELSE IF p[1] = STAR THEN (IF SegMatch(s, Tail(p)) THEN TRUE ELSE s # <<>> /\ SegMatch(Tail(s), p))
  ELSE IF p[1] = QM THEN s # <<>> /\ SegMatch(Tail(s), Tail(p))
  ELSE IF p[1] = LB /\ \E i \in 2..Len(p) : p[i] = RB
       THEN LET e == ClassEnd(p) IN s # <<>> /\ InClass(s[1], SubSeq(p, 2, e - 1)) /\ SegMatch(Tail(s), SubSeq(p, e + 1, Len(p)))
  ELSE s # <<>> /\ s[1] = p[1] /\ SegMatch(Tail(s), Tail(p))
RECURSIVE PathMatch(_, _)
PathMatch(path, pat) ==
  IF pat = <<>> THEN path = <<>>
  ELSE IF pat[1] = <<STAR, STAR>> THEN (IF PathMatch(path, Tail(pat)) THEN TRUE ELSE path # <<>> /\ PathMatch(Tail(path), pat))
  ELSE path # <<>> /\ SegMatch(path[1], pat[1]) /\ PathMatch(Tail(path), Tail(pat))
RECURSIVE FlattenRows(_)
FlattenRows(ss) == IF ss = <<>> THEN <<>> ELSE Head(ss) \o FlattenRows(Tail(ss))
(* multi: files = << [path, rows] >>; pats = << pattern >> (a list of literal paths is a list of patterns without
   metacharacters; a file listed / matched several times is still one match per list entry)                     *)
MultiRows(r) == FlattenRows([k \in 1..(Len(r.pats) * Len(r.files)) |->
                   LET pi == ((k - 1) \div Len(r.files)) + 1  fi == ((k - 1) % Len(r.files)) + 1
                   IN IF PathMatch(r.files[fi].path, r.pats[pi]) THEN r.files[fi].rows ELSE <<>>])
Why(r) ==
  IF r.obs.outcome # "rows" THEN "outcome"
  ELSE IF r.obs.types # r.types THEN "types"
  ELSE LET exp == IF r.kind = "filter" THEN Kept(r) ELSE IF r.kind = "multi" THEN MultiRows(r) ELSE r.rows IN
       IF r.ordered THEN (IF r.obs.rows = exp THEN "ok" ELSE "rows")
       ELSE (IF BagEq(r.obs.rows, exp) THEN "ok" ELSE "rows")
TInit == l = 1
TNext == /\ l <= Len(Rec) /\ l' = l + 1
         /\ LET why == Why(Rec[l]) IN IF why = "ok" THEN TRUE ELSE PrintT(ToJson([mismatch |-> Rec[l].id, why |-> why]))
TSpec == TInit /\ [][TNext]_l
Accepted == TLCGet("stats").diameter - 1 = Len(Rec)
=============================================================================
