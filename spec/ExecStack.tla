------------------------------ MODULE ExecStack ------------------------------
(* The instruction machine that drives one partition pipeline
   (execution/execution_stack.rs), transcribed instruction by instruction.
   An Effects call returns a poll result chosen nondeterministically here (the
   operators decide it in the engine).

   stack : sequence of instructions, top = last element
           [k |-> "exec", op |-> i, start |-> BOOLEAN] | [k |-> "fin", op |-> i]
   cf    : control flow returned by the last pop_next
           "continue" | "pending" | "finished" | "error" | "none"               *)
EXTENDS ExecStackDefs, TLC, Json

CONSTANTS MaxSteps,        \* bound on pop_next calls per behaviour (MC only)
          AllowMidExhaust  \* may a non-source operator return Exhausted (e.g. LIMIT)?

VARIABLES stack, cf, steps,
          finalized,   \* set of operators whose finalize returned Finalized or NeedsDrain
          hist         \* history of <<call kind, op, poll>> (hidden from the fingerprint by VIEW)

vars == <<stack, cf, steps, finalized, hist>>
View == <<stack, cf, steps, finalized>>

Top        == stack[Len(stack)]
Pop        == SubSeq(stack, 1, Len(stack) - 1)

Init == /\ stack = << Exec(0, TRUE) >> /\ cf = "none" /\ steps = 0 /\ finalized = {} /\ hist = <<>>

ExecPolls == {"ready", "pending", "needs_more", "has_more", "exhausted"}
FinPolls  == {"finalized", "needs_drain", "pending"}

(* which poll results an operator may legitimately return in this position *)
LegalExecPoll(ins, p) ==
  /\ (p = "exhausted") => (ins.start \/ AllowMidExhaust)
  /\ (p \in {"has_more", "exhausted"}) => ins.op # Last
  /\ (p = "needs_more") => ~ins.start      \* a source never asks for more input
  /\ (ins.op = Last) => p \in {"ready", "pending", "needs_more"}   \* a sink consumes

PopNext ==
  /\ cf \notin {"finished", "error"}
  /\ IF stack = <<>> THEN
        /\ cf' = "finished" /\ steps' = steps + 1
        /\ hist' = Append(hist, <<"none", 0, "none">>)
        /\ UNCHANGED <<stack, finalized>>
     ELSE LET ins == Top rest == Pop IN
        IF ins.k = "exec" THEN
           \E p \in ExecPolls :
              /\ LegalExecPoll(ins, p)
              /\ LET a == AfterExec(ins, rest, p) IN stack' = a.s /\ cf' = a.cf
              /\ steps' = steps + 1
              /\ hist' = Append(hist, <<"exec", ins.op, p>>)
              /\ UNCHANGED finalized
        ELSE
           \E p \in FinPolls :
              /\ (p = "needs_drain") => ins.op # Last
              /\ LET a == AfterFin(ins, rest, p) IN stack' = a.s /\ cf' = a.cf
              /\ steps' = steps + 1
              /\ hist' = Append(hist, <<"fin", ins.op, p>>)
              /\ finalized' = IF p = "pending" THEN finalized ELSE finalized \cup {ins.op}

Next == PopNext
Spec == Init /\ [][Next]_vars

Bound == steps <= MaxSteps

(* ------------------------------- properties ------------------------------- *)
(* a Pending poll never loses the instruction: the same instruction is on top again *)
PendingKeepsInstruction ==
  [][ (cf' = "pending") => (stack' = stack) ]_vars

(* the operator at index 0 is never finalized; instructions stay within the pipeline *)
WellFormed == \A i \in DOMAIN stack : stack[i].op \in 0..Last /\ (stack[i].k = "fin" => stack[i].op >= 1)

(* with legal polls the machine never reaches its internal error states *)
NoInternalError == cf # "error"

(* the pipeline finishes only through the sink's finalize *)
FinishedMeansSinkFinalized == (cf = "finished") => Last \in finalized

(* every operator downstream of the source is finalized before the pipeline finishes.
   Holds only if no mid-pipeline operator returns Exhausted: Exhausted clears the
   stack, so the operators upstream of it are never finalized (see DESIGN.md,
   KF-LIMIT-LEFTJOIN-HANG).                                                    *)
AllFinalizedAtFinish == (cf = "finished") => finalized = 1..Last

(* each operator's finalize completes at most once *)
FinalizeOnce ==
  [][ \A i \in 1..Last : (i \in finalized) =>
        ~(stack # <<>> /\ Top.k = "fin" /\ Top.op = i /\ finalized' = finalized /\ cf' # "pending" /\ steps' # steps) ]_vars

(* emit one history per transition of the state graph (behaviours for replay) *)
EmitHist == (hist' # hist) => PrintT(ToJson([n |-> N, hist |-> hist']))
=============================================================================
