------------------------------- MODULE TraceCast -------------------------------
(* Verdict-style validation of cast observations (C13).
   Lines: [id, kind, ... operands ..., out = [k, v], txt (code points), rt = round-trip out] *)
EXTENDS Cast, TLC, Json, IOUtils
Rec == ndJsonDeserialize(IOEnv.TRACE)
VARIABLE l
(* a (source, target) pair for which the engine has no cast at all is outside the property's domain *)
OK(r) ==
  IF r.out.k = "unsupported" THEN TRUE ELSE
  CASE r.kind = "int_int"   -> IntToIntOK(r.v, r.ty, r.out)
    [] r.kind = "int_dec"   -> IntToDecOK(r.v, r.p, r.s, r.out)
    [] r.kind = "dec_dec"   -> DecToDecOK(r.v, r.s1, r.p, r.s, r.out)
    (* cast chains mean the composition of the single casts. int_chain: v -> ty1 -> ty; dec_chain: the line carries the
       OBSERVED result of the first cast alone as v (scale s1) and judges the second step of the nested form against it;
       mid = "err" says the first cast alone failed, then the nested form must fail too *)
    [] r.kind = "int_chain" -> IF InRange(r.ty1, r.v) THEN IntToIntOK(r.v, r.ty, r.out) ELSE r.out.k = "err"
    [] r.kind = "dec_chain" -> IF r.mid = "err" THEN r.out.k = "err" ELSE DecToDecOK(r.v, r.s1, r.p, r.s, r.out)
    [] r.kind = "dec_int"   -> DecToIntOK(r.v, r.s1, r.ty, r.out)
    [] r.kind = "float_int" -> FloatToIntOK(r.v, r.s1, r.ty, r.out)
    [] r.kind = "text_int"  -> ParseIntOK(r.txt, r.ty, r.out)
    [] r.kind = "text_dec"  -> TextToDecOK(r.txt, r.p, r.s, r.out)
    (* formatting: the printed text denotes the value, and parsing it back returns the value *)
    [] r.kind = "int_text"  -> r.out.k = "val" /\ IntText(r.txt, r.v) /\ r.rt.k = "val" /\ r.rt.v = r.v
    [] r.kind = "dec_text"  -> r.out.k = "val" /\ DecText(r.txt, r.v, r.s1) /\ r.rt.k = "val" /\ r.rt.v = r.v
    [] r.kind = "text_date" -> DateCastOK(r.y, r.m, r.d, r.out)
    [] r.kind = "date_text" -> r.out.k = "val" /\ r.rt.k = "val" /\ r.rt.v = r.v   \* days -> text -> days
(* why a decimal -> decimal observation is wrong: the value is the correct rounding but has more digits than the target
   precision allows ("precision"), or it is not the correct rounding at all ("value"), or the outcome class is wrong *)
Why(r) ==
  IF r.kind \in {"dec_dec", "dec_chain"} /\ r.out.k = "val" THEN
       (IF r.s >= r.s1
        THEN (IF r.out.v = Mul(r.v, Pow10(r.s - r.s1)) THEN "precision" ELSE "value")
        ELSE (IF RoundHalfAwayRel(r.v, Pow10(r.s1 - r.s), r.out.v) THEN "precision" ELSE "value"))
  ELSE IF r.out.k = "val" THEN "value" ELSE "outcome"
TInit == l = 1
TNext == /\ l <= Len(Rec) /\ l' = l + 1
         /\ IF OK(Rec[l]) THEN TRUE ELSE PrintT(ToJson([mismatch |-> Rec[l].id, why |-> Why(Rec[l])]))
TSpec == TInit /\ [][TNext]_l
Accepted == TLCGet("stats").diameter - 1 = Len(Rec)
=============================================================================
