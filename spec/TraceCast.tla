------------------------------- MODULE TraceCast -------------------------------
(* Verdict-style validation of cast observations (C13).
   Lines: [id, kind, ... operands ..., out = [k, v], txt (code points), rt = round-trip out] *)
EXTENDS Cast, TLC, Json, IOUtils
Rec == ndJsonDeserialize(IOEnv.TRACE)
VARIABLE l
(* a (source, target) pair for which the engine has no cast at all is outside the property's domain *)
OK(r) ==
  IF r.out.k = "unsupported" THEN TRUE ELSE
  CASE r.kind = "int_int"   -> IntToIntOK(r.v, r.ty, r.out)
    [] r.kind = "int_dec"   -> IntToDecOK(r.v, r.p, r.s, r.out)
    [] r.kind = "dec_dec"   -> DecToDecOK(r.v, r.s1, r.p, r.s, r.out)
    [] r.kind = "dec_int"   -> DecToIntOK(r.v, r.s1, r.ty, r.out)
    [] r.kind = "float_int" -> FloatToIntOK(r.v, r.s1, r.ty, r.out)
    [] r.kind = "text_int"  -> ParseIntOK(r.txt, r.ty, r.out)
    (* formatting: the printed text denotes the value, and parsing it back returns the value *)
    [] r.kind = "int_text"  -> r.out.k = "val" /\ IntText(r.txt, r.v) /\ r.rt.k = "val" /\ r.rt.v = r.v
    [] r.kind = "dec_text"  -> r.out.k = "val" /\ DecText(r.txt, r.v, r.s1) /\ r.rt.k = "val" /\ r.rt.v = r.v
    [] r.kind = "text_date" -> DateCastOK(r.y, r.m, r.d, r.out)
    [] r.kind = "date_text" -> r.out.k = "val" /\ r.rt.k = "val" /\ r.rt.v = r.v   \* days -> text -> days
TInit == l = 1
TNext == /\ l <= Len(Rec) /\ l' = l + 1
         /\ IF OK(Rec[l]) THEN TRUE ELSE PrintT(ToJson([mismatch |-> Rec[l].id]))
TSpec == TInit /\ [][TNext]_l
Accepted == TLCGet("stats").diameter - 1 = Len(Rec)
=============================================================================
