-------------------------------- MODULE Regex --------------------------------
(* C20: what a regular expression denotes, and which match the regexp functions
   must pick. Strings are sequences of code points; a pattern is an AST

     [k |-> "lit", c]   one character            [k |-> "any"]    '.', any character but newline
     [k |-> "cls", neg, set]  [..] / [^..]       [k |-> "bol"], [k |-> "eol"]   ^ and $
     [k |-> "cat", a, b]   [k |-> "alt", a, b]   [k |-> "star" | "plus" | "opt", a]   (greedy)

   Pref(r, s, i) is the sequence of end positions of the matches of r starting
   at position i of s, in the order a backtracking matcher tries them
   (alternatives left to right, greedy repetition longest first): the semantics
   "leftmost-first" of Perl-style engines, which the regex crate guarantees.
   The match found in s is the first element of Pref at the leftmost start
   position where Pref is non-empty.                                           *)
EXTENDS Integers, Sequences, FiniteSets

NL == 10
RECURSIVE DedupSeq(_)
DedupSeq(q) == IF q = <<>> THEN <<>>
               ELSE LET r == DedupSeq(SubSeq(q, 1, Len(q) - 1)) x == q[Len(q)]
                    IN IF \E i \in DOMAIN r : r[i] = x THEN r ELSE Append(r, x)
RECURSIVE FlatSeq(_)
FlatSeq(qq) == IF qq = <<>> THEN <<>> ELSE Head(qq) \o FlatSeq(Tail(qq))

RECURSIVE Pref(_, _, _)
Pref(r, s, i) ==
  CASE r.k = "lit" -> IF i <= Len(s) /\ s[i] = r.c THEN <<i + 1>> ELSE <<>>
    [] r.k = "any" -> IF i <= Len(s) /\ s[i] # NL THEN <<i + 1>> ELSE <<>>
    [] r.k = "cls" -> IF i <= Len(s) /\ ((s[i] \in r.set) # r.neg) THEN <<i + 1>> ELSE <<>>
    [] r.k = "bol" -> IF i = 1 THEN <<i>> ELSE <<>>
    [] r.k = "eol" -> IF i = Len(s) + 1 THEN <<i>> ELSE <<>>
    [] r.k = "cat" -> LET pa == Pref(r.a, s, i)
                      IN DedupSeq(FlatSeq([x \in 1..Len(pa) |-> Pref(r.b, s, pa[x])]))
    [] r.k = "alt" -> DedupSeq(Pref(r.a, s, i) \o Pref(r.b, s, i))
    [] r.k = "opt" -> DedupSeq(Pref(r.a, s, i) \o <<i>>)
    (* iterations are tried in the priority order of the body's matches; an iteration that matches the empty string ends
       the repetition there (a backtracking matcher does not loop on empty iterations), a non-empty one continues *)
    [] r.k = "star" -> LET pa == Pref(r.a, s, i)
                       IN DedupSeq(FlatSeq([x \in 1..Len(pa) |-> IF pa[x] > i THEN Pref(r, s, pa[x]) ELSE <<i>>]) \o <<i>>)
    [] r.k = "plus" -> LET pa == Pref(r.a, s, i)
                       IN DedupSeq(FlatSeq([x \in 1..Len(pa) |-> Pref([k |-> "star", a |-> r.a], s, pa[x])]))

(* the first match at or after position from: <<start, end>> (end exclusive) or <<>> *)
RECURSIVE FindFrom(_, _, _)
FindFrom(r, s, from) ==
  IF from > Len(s) + 1 THEN <<>>
  ELSE LET p == Pref(r, s, from) IN IF p # <<>> THEN <<from, p[1]>> ELSE FindFrom(r, s, from + 1)

IsMatch(r, s) == FindFrom(r, s, 1) # <<>>
(* 1-based character position of the first match, 0 if none *)
Instr(r, s) == LET m == FindFrom(r, s, 1) IN IF m = <<>> THEN 0 ELSE m[1]
(* successive non-overlapping matches; after an empty match the search resumes one character later *)
RECURSIVE CountFrom(_, _, _)
CountFrom(r, s, from) ==
  LET m == FindFrom(r, s, from)
  IN IF m = <<>> THEN 0
     ELSE 1 + (IF m[2] > m[1] THEN CountFrom(r, s, m[2]) ELSE CountFrom(r, s, m[2] + 1))
Count(r, s) == CountFrom(r, s, 1)
(* replace the first match by rep (a literal replacement) *)
ReplaceFirst(r, s, rep) ==
  LET m == FindFrom(r, s, 1)
  IN IF m = <<>> THEN s ELSE SubSeq(s, 1, m[1] - 1) \o rep \o SubSeq(s, m[2], Len(s))

(* ---- laws checked when the module is loaded ---- *)
L(c) == [k |-> "lit", c |-> c]
Cat(a, b) == [k |-> "cat", a |-> a, b |-> b]
Alt(a, b) == [k |-> "alt", a |-> a, b |-> b]
Star(a) == [k |-> "star", a |-> a]
ASSUME Pref(Star(L(97)), <<97, 97, 98>>, 1) = <<3, 2, 1>>                        \* greedy: longest first
ASSUME FindFrom(Alt(L(97), Cat(L(97), L(98))), <<97, 98>>, 1) = <<1, 2>>         \* leftmost-first, not longest
ASSUME Count(Star(L(97)), <<98, 97, 97, 98>>) = 4                                \* "", "aa", "", "" (empty matches count)
ASSUME ReplaceFirst(Cat(L(97), Star(L(98))), <<99, 97, 98, 98, 97>>, <<120>>) = <<99, 120, 97>>
ASSUME Instr([k |-> "eol"], <<97, 98>>) = 3
ASSUME FindFrom(Star(Alt([k |-> "bol"], L(98))), <<98, 97, 98>>, 1) = <<1, 1>>          \* (^|b)* on "bab": the empty iteration ends the star
ASSUME FindFrom(Star(Alt(L(98), [k |-> "bol"])), <<98, 97, 98>>, 1) = <<1, 2>>          \* (b|^)* on "bab": matches "b"
=============================================================================
