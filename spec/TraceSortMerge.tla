---------------------------- MODULE TraceSortMerge ----------------------------
(* Trace validation of the real sort merge queue against the protocol of
   SortMergeOp.tla. Events are emitted under the queue's mutex: the primitives'
   own (PartitionWakers::{store, wake_all}, DelayedPartitionCount::{set,
   dec_by_one}) plus five hooks in sort/merge_queue.rs logging the queue length
   and the number of running merges after each critical section. The
   orchestrator projects the event sequence per queue instance (by address).

   Lines: [ev, ps, n, p, runs, running, some, parts, failed]
     MqInit(parts) | CountSet(n) | MqAdd(n blocks, runs) . CountDec(n) | MqTake2(p, runs, running)
     | MqDone(p, runs, running) . WakeAll(ps) | Store(ps) | MqFinished(p) | WakeAll(ps) . MqTakeRun(some, runs)      *)
EXTENDS Naturals, Sequences, FiniteSets, TLC, Json, IOUtils
Rec == ndJsonDeserialize(IOEnv.TRACE)

VARIABLES l, runs, running, rem, parked, oblig, drains, blocks, failed, parts
vars == <<l, runs, running, rem, parked, oblig, drains, blocks, failed, parts>>
SetOf(s) == {s[i] : i \in DOMAIN s}
Complete == rem = 0 /\ running = 0 /\ runs <= 1
TInit == l = 1 /\ runs = 0 /\ running = 0 /\ rem = 99 /\ parked = {} /\ oblig = "" /\ drains = 0 /\ blocks = 0 /\ failed = FALSE /\ parts = 0
ModelJson == [runs |-> runs, running |-> running, rem |-> rem, oblig |-> oblig, drains |-> drains]
Bad(e, what) == PrintT(ToJson([mismatch |-> l, ev |-> e.ev, what |-> what, model |-> ModelJson]))
EndOK == failed \/ (parked = {} /\ oblig = "" /\ (rem = 0 => (drains = (IF blocks > 0 THEN 1 ELSE 0))))

Step ==
  /\ l <= Len(Rec)
  /\ l' = l + 1
  /\ LET e == Rec[l] IN
     IF e.ev = "MqInit" THEN
        /\ IF EndOK \/ rem = 99 THEN TRUE ELSE Bad(e, "previous-queue-ended-badly")
        /\ runs' = 0 /\ running' = 0 /\ rem' = 99 /\ parked' = {} /\ oblig' = "" /\ drains' = 0 /\ blocks' = 0
        /\ failed' = e.failed /\ parts' = e.parts
     ELSE
     /\ UNCHANGED <<failed, parts>>
     /\ IF oblig = "" \/ e.ev = oblig THEN TRUE ELSE Bad(e, "critical-section-incomplete: expected " \o oblig)
     /\ CASE e.ev = "CountSet" ->
               /\ IF e.n = parts THEN TRUE ELSE Bad(e, "count-set-to-other-than-partitions")
               /\ rem' = e.n /\ oblig' = "" /\ UNCHANGED <<runs, running, parked, drains, blocks>>
          [] e.ev = "MqAdd" ->
               /\ IF e.runs = runs + e.n THEN TRUE ELSE Bad(e, "queue-length")
               /\ runs' = e.runs /\ blocks' = blocks + e.n /\ oblig' = "CountDec" /\ UNCHANGED <<running, rem, parked, drains>>
          [] e.ev = "CountDec" ->
               /\ IF oblig = "CountDec" /\ rem # 99 /\ rem >= 1 /\ e.n = rem - 1 THEN TRUE ELSE Bad(e, "count")
               /\ rem' = e.n /\ oblig' = "" /\ UNCHANGED <<runs, running, parked, drains, blocks>>
          [] e.ev = "MqTake2" ->
               /\ IF runs >= 2 /\ ~Complete THEN TRUE ELSE Bad(e, "merge-taken-without-two-runs")
               /\ IF e.runs = runs - 2 /\ e.running = running + 1 THEN TRUE ELSE Bad(e, "queue-length")
               /\ runs' = e.runs /\ running' = e.running /\ oblig' = "" /\ UNCHANGED <<rem, parked, drains, blocks>>
          [] e.ev = "MqDone" ->
               /\ IF running >= 1 /\ e.runs = runs + 1 /\ e.running = running - 1 THEN TRUE ELSE Bad(e, "queue-length")
               /\ runs' = e.runs /\ running' = e.running /\ oblig' = "WakeAll" /\ UNCHANGED <<rem, parked, drains, blocks>>
          [] e.ev = "WakeAll" ->
               /\ IF SetOf(e.ps) = parked THEN TRUE ELSE Bad(e, "woken-set")
               (* owed by a finished merge; also issued by take_sorted_run; any other wake_all is a harmless spurious wake-up *)
               /\ oblig' = ""
               /\ parked' = {} /\ UNCHANGED <<runs, running, rem, drains, blocks>>
          [] e.ev = "Store" ->
               /\ IF ~Complete /\ runs < 2 THEN TRUE ELSE Bad(e, "parked-although-work-or-completion-available")
               /\ parked' = parked \cup SetOf(e.ps) /\ oblig' = "" /\ UNCHANGED <<runs, running, rem, drains, blocks>>
          [] e.ev = "MqFinished" ->
               /\ IF Complete THEN TRUE ELSE Bad(e, "finished-before-complete")
               /\ oblig' = "" /\ UNCHANGED <<runs, running, rem, parked, drains, blocks>>
          [] e.ev = "MqTakeRun" ->
               (* take_sorted_run wakes everybody parked in earlier merge rounds (same critical section) so they get exhausted *)
               /\ IF l > 1 /\ Rec[l - 1].ev = "WakeAll" THEN TRUE ELSE Bad(e, "take_sorted_run-without-wake_all")
               /\ IF Complete THEN TRUE ELSE Bad(e, "final-run-taken-before-complete")
               /\ IF e.some = (runs = 1) /\ e.runs = 0 THEN TRUE ELSE Bad(e, "final-run")
               /\ runs' = 0 /\ drains' = drains + (IF e.some THEN 1 ELSE 0) /\ oblig' = ""
               /\ UNCHANGED <<running, rem, parked, blocks>>
          [] OTHER -> UNCHANGED <<runs, running, rem, parked, oblig, drains, blocks>>

Final ==
  /\ l = Len(Rec) + 1
  /\ l' = l + 1
  /\ IF EndOK \/ rem = 99 THEN TRUE ELSE PrintT(ToJson([mismatch |-> l, ev |-> "End", what |-> "queue-ended-badly", model |-> ModelJson]))
  /\ UNCHANGED <<runs, running, rem, parked, oblig, drains, blocks, failed, parts>>
TNext == Step \/ Final
TSpec == TInit /\ [][TNext]_vars
Accepted == TLCGet("stats").diameter = Len(Rec) + 2
=============================================================================
