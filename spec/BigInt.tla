------------------------------- MODULE BigInt -------------------------------
(* Exact integers of any size as sign + base-10^4 limbs (TLC's own integers are
   32-bit). A number is [neg |-> BOOLEAN, mag |-> <<limb_1, ..., limb_n>>],
   least significant limb first, no leading (trailing-in-the-sequence) zero
   limbs; zero is [neg |-> FALSE, mag |-> <<>>]. Limb products stay below 2^31.

   Every recursive operator binds its recursive call once (TLC does not
   memoise).                                                                  *)
EXTENDS Integers, Sequences

Base == 10000

Zero == [neg |-> FALSE, mag |-> <<>>]
IsZero(a) == a.mag = <<>>

RECURSIVE Trim(_)
Trim(m) == IF m = <<>> THEN <<>>
           ELSE IF m[Len(m)] = 0 THEN Trim(SubSeq(m, 1, Len(m) - 1)) ELSE m

Mk(neg, m) == LET t == Trim(m) IN [neg |-> (neg /\ t # <<>>), mag |-> t]

RECURSIVE MagOfNat(_)
MagOfNat(n) == IF n = 0 THEN <<>> ELSE <<n % Base>> \o MagOfNat(n \div Base)
(* from a TLC integer (|n| < 2^31) *)
FromInt(n) == IF n < 0 THEN [neg |-> TRUE, mag |-> MagOfNat(-n)] ELSE [neg |-> FALSE, mag |-> MagOfNat(n)]

Limb(m, i) == IF i <= Len(m) THEN m[i] ELSE 0
MaxN(a, b) == IF a > b THEN a ELSE b

(* magnitude comparison: -1, 0, 1 *)
RECURSIVE CmpMagFrom(_, _, _)
CmpMagFrom(a, b, i) ==
  IF i = 0 THEN 0
  ELSE IF Limb(a, i) < Limb(b, i) THEN -1
  ELSE IF Limb(a, i) > Limb(b, i) THEN 1
  ELSE CmpMagFrom(a, b, i - 1)
CmpMag(a, b) == IF Len(a) < Len(b) THEN -1 ELSE IF Len(a) > Len(b) THEN 1 ELSE CmpMagFrom(a, b, Len(a))

RECURSIVE AddMagFrom(_, _, _, _)
AddMagFrom(a, b, i, carry) ==
  IF i > MaxN(Len(a), Len(b)) THEN (IF carry = 0 THEN <<>> ELSE <<carry>>)
  ELSE LET s == Limb(a, i) + Limb(b, i) + carry
       IN <<s % Base>> \o AddMagFrom(a, b, i + 1, s \div Base)
AddMag(a, b) == AddMagFrom(a, b, 1, 0)

(* a - b for a >= b *)
RECURSIVE SubMagFrom(_, _, _, _)
SubMagFrom(a, b, i, borrow) ==
  IF i > Len(a) THEN <<>>
  ELSE LET d == Limb(a, i) - Limb(b, i) - borrow
       IN IF d < 0 THEN <<d + Base>> \o SubMagFrom(a, b, i + 1, 1)
          ELSE <<d>> \o SubMagFrom(a, b, i + 1, 0)
SubMag(a, b) == Trim(SubMagFrom(a, b, 1, 0))

Neg(a) == Mk(~a.neg, a.mag)
Add(a, b) ==
  IF a.neg = b.neg THEN Mk(a.neg, AddMag(a.mag, b.mag))
  ELSE LET c == CmpMag(a.mag, b.mag)
       IN IF c = 0 THEN Zero
          ELSE IF c > 0 THEN Mk(a.neg, SubMag(a.mag, b.mag))
          ELSE Mk(b.neg, SubMag(b.mag, a.mag))
Sub(a, b) == Add(a, Neg(b))

(* magnitude times one limb d (0 <= d < Base) *)
RECURSIVE MulLimbFrom(_, _, _, _)
MulLimbFrom(a, d, i, carry) ==
  IF i > Len(a) THEN (IF carry = 0 THEN <<>> ELSE <<carry>>)
  ELSE LET p == a[i] * d + carry
       IN <<p % Base>> \o MulLimbFrom(a, d, i + 1, p \div Base)
MulLimb(a, d) == IF d = 0 THEN <<>> ELSE MulLimbFrom(a, d, 1, 0)

RECURSIVE MulMagFrom(_, _, _)
MulMagFrom(a, b, j) ==     \* sum over j of (a * b[j]) shifted by j-1 limbs
  IF j > Len(b) THEN <<>>
  ELSE LET rest == MulMagFrom(a, b, j + 1)          \* (a * b[j+1..]) already shifted relative to j+1
           part == MulLimb(a, b[j])
       IN AddMag(part, IF rest = <<>> THEN <<>> ELSE <<0>> \o rest)
MulMag(a, b) == IF a = <<>> \/ b = <<>> THEN <<>> ELSE Trim(MulMagFrom(a, b, 1))
Mul(a, b) == Mk(a.neg # b.neg, MulMag(a.mag, b.mag))

Cmp(a, b) ==
  IF a.neg /\ ~b.neg THEN -1
  ELSE IF ~a.neg /\ b.neg THEN 1
  ELSE IF a.neg THEN CmpMag(b.mag, a.mag) ELSE CmpMag(a.mag, b.mag)
Lt(a, b) == Cmp(a, b) < 0
Le(a, b) == Cmp(a, b) <= 0
Eq(a, b) == a = b
Abs(a) == Mk(FALSE, a.mag)
Sign(a) == IF IsZero(a) THEN 0 ELSE IF a.neg THEN -1 ELSE 1

RECURSIVE Pow(_, _)
Pow(a, n) == IF n = 0 THEN FromInt(1) ELSE LET r == Pow(a, n - 1) IN Mul(a, r)
(* powers of 2 and 10 are needed for every type bound and scale: tabulated once (TLC evaluates a
   parameterless definition once; it does not memoise operator applications) *)
RECURSIVE PowTable(_, _)
PowTable(a, n) == IF n = 0 THEN <<FromInt(1)>> ELSE LET t == PowTable(a, n - 1) IN Append(t, Mul(a, t[Len(t)]))
Pow2Table  == PowTable(FromInt(2), 130)
Pow10Table == PowTable(FromInt(10), 80)
Pow2(n)  == Pow2Table[n + 1]
Pow10(n) == Pow10Table[n + 1]

(* truncated division is CHECKED, not computed: q and r are the quotient and
   remainder of a / b (toward zero; the remainder takes the dividend's sign)   *)
DivRel(a, b, q, r) ==
  /\ ~IsZero(b)
  /\ a = Add(Mul(q, b), r)
  /\ Lt(Abs(r), Abs(b))
  /\ (IsZero(r) \/ r.neg = a.neg)

(* well-formedness of a transported number *)
WF(a) == /\ \A i \in DOMAIN a.mag : a.mag[i] \in 0..(Base - 1)
         /\ (a.mag # <<>> => a.mag[Len(a.mag)] # 0)
         /\ (a.mag = <<>> => ~a.neg)
=============================================================================
