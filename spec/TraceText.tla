------------------------------ MODULE TraceText ------------------------------
(* Verdict-style validation for C20. Lines:
   [id, kind = "like" | "fn", s, p (pattern / second string), f, n, m, an (1 = that argument is NULL), out = [k, v]]
   out.k = "val" with v a code-point sequence (strings) or <<x>> (integers, booleans 0/1),
           "null", "err", or an inadmissible outcome name.                      *)
EXTENDS Text, Json, IOUtils
Rec == ndJsonDeserialize(IOEnv.TRACE)
VARIABLE l
OK(r) ==
  IF r.kind = "like" THEN
       IF ~LikeSpecified(r.p) THEN r.out.k \in {"val", "err"}
       ELSE r.out.k = "val" /\ r.out.v = <<IF Like(r.s, r.p) THEN 1 ELSE 0>>
  (* a NULL in any argument position makes the result NULL, whichever arguments are constants or columns *)
  ELSE IF \E i \in DOMAIN r.an : r.an[i] = 1 THEN r.out.k = "null"
  ELSE r.out.k = "val" /\ r.out.v = Fn(r.f, r.s, r.p, r.n, r.m)
Exp(r) == IF r.kind = "like" THEN <<IF LikeSpecified(r.p) /\ Like(r.s, r.p) THEN 1 ELSE 0>> ELSE Fn(r.f, r.s, r.p, r.n, r.m)
TInit == l = 1
TNext == /\ l <= Len(Rec) /\ l' = l + 1
         /\ IF OK(Rec[l]) THEN TRUE ELSE PrintT(ToJson([mismatch |-> Rec[l].id, exp |-> Exp(Rec[l])]))
TSpec == TInit /\ [][TNext]_l
Accepted == TLCGet("stats").diameter - 1 = Len(Rec)
=============================================================================
