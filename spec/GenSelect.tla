------------------------------ MODULE GenSelect ------------------------------
(* Generator for C01/C02/C03: query terms are built as BEHAVIOURS - each step
   puts one more construct on top of the query so far - so BFS to depth k
   enumerates every composition of <= k constructs over the pools below, and
   -simulate samples deep compositions. A state IS a query (plus its width and
   column classes), so BFS deduplicates queries for free.

   Base tables: A(a int, b int), B(a int, b int), S(a int, s text).          *)
EXTENDS Gen

CONSTANTS MaxDepth,
          SampleK    \* emit every state (1) or a random 1/SampleK sample of the states TLC generates

VARIABLES q,      \* the query term
          cl,     \* classes of its output columns
          d,      \* number of constructs applied
          fin     \* TRUE once a construct with a nondeterministic result was applied (top-level only)

vars == <<q, cl, d, fin>>
W == Len(cl)

Base == { [q |-> Scan("A"), cl |-> <<"i", "i">>],
          [q |-> Scan("B"), cl |-> <<"i", "i">>],
          [q |-> Scan("S"), cl |-> <<"i", "t">>] }

IntCols(c)  == {i \in 1..Len(c) : c[i] = "i"}
TextCols(c) == {i \in 1..Len(c) : c[i] = "t"}
BoolCols(c) == {i \in 1..Len(c) : c[i] = "b"}

(* ----------------------------- expression pools ----------------------------- *)
SimplePreds(c) ==
     { CmpE(op, Col(i), LitI(1)) : op \in {"eq", "lt", "ge"}, i \in IntCols(c) }
\cup { CmpE(op, Col(p[1]), Col(p[2])) : op \in {"eq", "lt"}, p \in {pp \in IntCols(c) \X IntCols(c) : pp[1] # pp[2]} }
\cup { IsNullE(Col(i)) : i \in 1..Len(c) }
\cup { CmpE("ge", Col(i), LitT(1)) : i \in TextCols(c) }
\cup { Col(i) : i \in BoolCols(c) }

Preds(c) ==
  LET sp == SimplePreds(c)
      i1 == IF IntCols(c) = {} THEN 1 ELSE CHOOSE i \in IntCols(c) : TRUE
  IN sp
     \cup { NotE(p) : p \in { CmpE("eq", Col(i), LitI(1)) : i \in IntCols(c) } }
     \cup (IF IntCols(c) = {} THEN {} ELSE
            { OrE(CmpE("eq", Col(i1), LitI(0)), IsNullE(Col(i1))),
              AndE(CmpE("ge", Col(i1), LitI(0)), NotE(CmpE("eq", Col(i1), LitI(2)))),
              [k |-> "inlist", x |-> Col(i1), list |-> <<LitI(0), LitI(2)>>],
              [k |-> "inlist", x |-> Col(i1), list |-> <<LitI(1), NullI>>],
              [k |-> "between", x |-> Col(i1), lo |-> LitI(1), hi |-> LitI(2)],
              DistinctE(Col(i1), LitI(1)) })

ScalarExprs(c) ==
     { Col(i) : i \in 1..Len(c) }
\cup { Arith("add", Col(i), LitI(1)) : i \in IntCols(c) }
\cup { Arith("mul", Col(i), Col(j)) : i \in IntCols(c), j \in IntCols(c) }
\cup { [k |-> "coalesce", args |-> <<Col(i), LitI(7)>>] : i \in IntCols(c) }
\cup { [k |-> "case", whens |-> << [c |-> CmpE("eq", Col(i), LitI(1)), t |-> LitI(10)] >>, els |-> Col(i)]
        : i \in IntCols(c) }
\cup { CmpE("lt", Col(i), LitI(2)) : i \in IntCols(c) }
\cup { IsNullE(Col(i)) : i \in 1..Len(c) }

ExprClass(e, c) ==
  CASE e.k = "col" -> c[e.i]
    [] e.k \in {"arith", "coalesce", "case"} -> "i"
    [] OTHER -> "b"

(* --------------------------------- actions --------------------------------- *)
Step(nq, ncl, nfin) == /\ q' = nq /\ cl' = ncl /\ d' = d + 1 /\ fin' = nfin

AddFilter == \E p \in Preds(cl) : Step(Filter(q, p), cl, FALSE)

AddProject ==
  \/ \E e \in ScalarExprs(cl) : Step(Project(q, <<e>>), <<ExprClass(e, cl)>>, FALSE)
  \/ \E e1 \in ScalarExprs(cl), i \in 1..W :
        Step(Project(q, <<Col(i), e1>>), <<cl[i], ExprClass(e1, cl)>>, FALSE)

JoinConds(c, w1) ==   \* conditions between the first w1 columns (left) and the rest (right)
  LET L == {i \in IntCols(c) : i <= w1}  R == {i \in IntCols(c) : i > w1}
  IN { Eq(Col(i), Col(j)) : i \in L, j \in R }
     \cup { AndE(Eq(Col(i), Col(j)), CmpE("lt", Col(i2), Col(j))) : i \in L, i2 \in L, j \in R }
     \cup { CmpE("lt", Col(i), Col(j)) : i \in L, j \in R }

AddJoin ==
  \E b \in Base, jt \in {"inner", "left", "right", "semi", "anti"} :
    LET both == cl \o b.cl IN
    \E on \in JoinConds(both, W) :
       Step(Join(jt, q, b.q, on, W, Len(b.cl)),
            IF jt \in {"semi", "anti"} THEN cl ELSE both, FALSE)

AddJoinLeftSide ==   \* the query so far becomes the RIGHT side
  \E b \in Base, jt \in {"inner", "left"} :
    LET both == b.cl \o cl IN
    \E on \in JoinConds(both, Len(b.cl)) :
       Step(Join(jt, b.q, q, on, Len(b.cl), W), both, FALSE)

AggFns(c) ==
     { CountStar }
\cup { AggF(f, Col(i)) : f \in {"count", "sum", "min", "max", "avg"}, i \in IntCols(c) }
\cup { AggD(f, Col(i)) : f \in {"count", "sum"}, i \in IntCols(c) }
\cup { AggF(f, Col(i)) : f \in {"min", "max", "count"}, i \in TextCols(c) }
\cup { AggF(f, Col(i)) : f \in {"bool_and", "bool_or"}, i \in BoolCols(c) }

AggOutClass(a, c) ==
  CASE a.f \in {"count", "sum"} -> "i"
    [] a.f = "avg" -> "n"
    [] a.f \in {"bool_and", "bool_or"} -> "b"
    [] OTHER -> c[a.x.i]

AddAgg ==
  \/ \E a \in AggFns(cl) : Step(AggQ(q, <<>>, <<a>>), <<AggOutClass(a, cl)>>, FALSE)
  \/ \E i \in 1..W, a \in AggFns(cl) :
        Step(AggQ(q, <<Col(i)>>, <<a>>), <<cl[i], AggOutClass(a, cl)>>, FALSE)
  \/ \E i \in 1..W, j \in 1..W, a \in {CountStar} \cup {AggF("sum", Col(m)) : m \in IntCols(cl)} :
        i < j /\ Step(AggQ(q, <<Col(i), Col(j)>>, <<a>>), <<cl[i], cl[j], AggOutClass(a, cl)>>, FALSE)

AddDistinct == Step(DistinctQ(q), cl, FALSE)

AddUnion ==
  \E b \in Base, all \in BOOLEAN :
     /\ b.cl = cl
     /\ \/ Step(UnionQ(all, q, b.q), cl, FALSE)
        \/ Step(UnionQ(all, b.q, q), cl, FALSE)

AllKeys(desc) == [i \in 1..W |-> SortK(Col(i), desc, "default")]

(* sort on every column makes the slice deterministic, so more constructs may follow *)
AddTopN == \E n \in {1, 2}, off \in {0, 1}, desc \in BOOLEAN :
              Step(LimitQ(SortQ(q, AllKeys(desc)), n, off), cl, FALSE)

AddWith ==   \* a CTE referenced twice
  \/ Step(WithQ("x", q, UnionQ(TRUE, Scan("x"), Scan("x"))), cl, FALSE)
  \/ \E i \in IntCols(cl) :
        Step(WithQ("x", q, Join("inner", Scan("x"), Scan("x"), Eq(Col(i), Col(W + i)), W, W)), cl \o cl, FALSE)

AddSubquery ==
  \E i \in IntCols(cl) :
     \/ Step(Filter(q, InSubE(Col(i), Project(Scan("B"), <<Col(1)>>))), cl, FALSE)
     \/ Step(Filter(q, ExistsE(Filter(Scan("B"), Eq(Col(1), Outer(1, i))))), cl, FALSE)
     \/ Step(Filter(q, NotE(ExistsE(Filter(Scan("B"), Eq(Col(2), Outer(1, i)))))), cl, FALSE)
     \/ Step(Project(q, <<Col(i), ScalarE(AggQ(Filter(Scan("B"), Eq(Col(1), Outer(1, i))), <<>>, <<AggF("sum", Col(2))>>))>>),
             <<"i", "i">>, FALSE)
     \/ Step(Filter(q, CmpE("gt", Col(i), ScalarE(AggQ(Scan("B"), <<>>, <<AggF("min", Col(1))>>)))), cl, FALSE)

(* final, top-level only: results that are determined only up to a relation *)
AddSortFinal ==
  \E i \in 1..W, desc \in BOOLEAN, nf \in {"default", "first", "last"} :
     Step(SortQ(q, <<SortK(Col(i), desc, nf)>>), cl, TRUE)
AddSortLimitFinal ==
  \E i \in 1..W, desc \in BOOLEAN, n \in {1, 2}, off \in {0, 1} :
     Step(LimitQ(SortQ(q, <<SortK(Col(i), desc, "default")>>), n, off), cl, TRUE)
AddLimitFinal == \E n \in {0, 1, 2}, off \in {0, 1} : Step(LimitQ(q, n, off), cl, TRUE)

Init == \E b \in Base : q = b.q /\ cl = b.cl /\ d = 0 /\ fin = FALSE

Next == /\ ~fin /\ d < MaxDepth
        /\ \/ AddFilter \/ AddProject \/ AddJoin \/ AddJoinLeftSide \/ AddAgg \/ AddDistinct
           \/ AddUnion \/ AddTopN \/ AddWith \/ AddSubquery
           \/ AddSortFinal \/ AddSortLimitFinal \/ AddLimitFinal

Spec == Init /\ [][Next]_vars

Emit == (SampleK = 1 \/ RandomElement(1..SampleK) = 1) => PrintT(ToJson([q |-> q, cl |-> cl, d |-> d]))
=============================================================================
