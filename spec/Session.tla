------------------------------- MODULE Session -------------------------------
(* What a session may do with a submitted statement text (C15).

   The session's observable state is the projection of Catalog.tla (schemas,
   entries with contents, settings). A submitted text yields Rows or Error; an
   Error leaves the state unchanged and the session keeps answering. "panic",
   "abort", "timeout" and "hang" exist only as observation names: no action of
   this specification produces them, so a trace containing one is rejected.    *)
EXTENDS SessionJudge

VARIABLES state,     \* abstract session state (opaque here; Catalog.tla refines it)
          alive,     \* the session still answers
          last       \* outcome of the last submission
vars == <<state, alive, last>>

CONSTANT States      \* finite abstraction of the state space for model checking

Init == state \in States /\ alive = TRUE /\ last = "none"

SubmitRows == /\ alive /\ last' = "rows"  /\ state' \in States /\ UNCHANGED alive
SubmitError == /\ alive /\ last' = "error" /\ UNCHANGED <<state, alive>>
Next == SubmitRows \/ SubmitError
Spec == Init /\ [][Next]_vars

AlwaysAlive == alive
ErrorIsStutter == [][last' = "error" => state' = state]_vars

=============================================================================
