------------------------------ MODULE TraceScale ------------------------------
(* Verdict-style validation of the scale families (C03, C06, C07, C08) against
   the closed forms of Scale.tla. A line:
     [id, fam, N, G, nullkey, A, lim, off, S, H, obs = [outcome, rows]]
   rows are sequences of spec values (<<>> NULL, <<n>>).

   fam = "groupby":  SELECT k, count(all), min(v), max(v), sum(v), round(12 * var_pop(v)) FROM T GROUP BY k
         "distinct": SELECT DISTINCT k FROM T
         "union":    SELECT k FROM T UNION SELECT k + H FROM T
         "countd":   SELECT count(DISTINCT k), count(k), count(all) FROM T
         "sort":     SELECT p FROM (SELECT (v * A) % N AS p FROM T) ORDER BY p [DESC] LIMIT lim OFFSET off   (desc: lim < 0 ... see Dir)
         "sort2":    SELECT k, v FROM T ORDER BY k, v DESC LIMIT lim OFFSET off
         "joinagg":  SELECT u, count(all), sum(v) FROM T JOIN U ON k = u GROUP BY u      (U = {u in 0..G-1+S : u % S = 0})
         "leftagg":  SELECT u, count(v) FROM U LEFT JOIN T ON k = u GROUP BY u
         "semi":     SELECT count(all) FROM T WHERE k IN (SELECT u FROM U);  "anti": ... NOT IN ...            *)
EXTENDS Scale, TLC, Json, IOUtils
Rec == ndJsonDeserialize(IOEnv.TRACE)
VARIABLE l

V(n) == <<n>>
KeyVal(g, r) == IF r.nullkey /\ g = 0 THEN <<>> ELSE <<g>>
Rows(r) == r.obs.rows
RowSet(r) == {Rows(r)[i] : i \in DOMAIN Rows(r)}
NoDup(r) == Cardinality(RowSet(r)) = Len(Rows(r))
Groups(r) == {g \in 0..(r.G - 1) : Cnt(g, r.N, r.G) > 0}
U(r) == {u \in 0..(r.G - 1 + r.S) : u % r.S = 0}
Min2(a, b) == IF a < b THEN a ELSE b

Expected(r) ==   \* as a set of rows (bag semantics via NoDup + cardinality)
  CASE r.fam = "groupby" ->
         { <<KeyVal(g, r), V(Cnt(g, r.N, r.G)), V(FirstV(g, r.G)), V(LastV(g, r.N, r.G)), V(SumG(g, r.N, r.G)), V(Var12(g, r.N, r.G))>> : g \in Groups(r) }
    [] r.fam = "distinct" -> { <<KeyVal(g, r)>> : g \in Groups(r) }
    [] r.fam = "union" -> { <<KeyVal(g, r)>> : g \in Groups(r) } \cup { <<V(g + r.H)>> : g \in {x \in Groups(r) : ~(r.nullkey /\ x = 0)} }
                          \cup (IF r.nullkey /\ 0 \in Groups(r) THEN { << <<>> >> } ELSE {})
    [] r.fam = "countd" -> { <<V(Cardinality(Groups(r)) - (IF r.nullkey /\ 0 \in Groups(r) THEN 1 ELSE 0)),
                              V(r.N - (IF r.nullkey THEN Cnt(0, r.N, r.G) ELSE 0)), V(r.N)>> }
    [] r.fam = "joinagg" -> { <<V(u), V(Cnt(u, r.N, r.G)), V(SumG(u, r.N, r.G))>> : u \in {x \in U(r) : x \in Groups(r) /\ ~(r.nullkey /\ x = 0)} }
    [] r.fam = "leftagg" -> { <<V(u), V(IF u \in Groups(r) /\ ~(r.nullkey /\ u = 0) THEN Cnt(u, r.N, r.G) ELSE 0)>> : u \in U(r) }
    [] r.fam = "semi" -> { <<V(SumOfSet({ Cnt(u, r.N, r.G) : u \in {x \in U(r) : x \in Groups(r) /\ ~(r.nullkey /\ x = 0)} }))>> }
    [] OTHER -> {}

(* sums of counts must count equal counts separately *)
SemiCount(r) == LET us == {x \in U(r) : x \in Groups(r) /\ ~(r.nullkey /\ x = 0)}
                IN FoldSet(LAMBDA u, acc : Cnt(u, r.N, r.G) + acc, 0, us)

SortExpected(r) ==
  LET total == r.N
      avail == IF r.off >= total THEN 0 ELSE total - r.off
      n == IF r.lim < 0 THEN avail ELSE Min2(r.lim, avail)
  IN CASE r.fam = "sort"  -> [i \in 1..n |-> IF r.desc THEN <<V(r.N - 1 - (r.off + i - 1))>> ELSE <<V(r.off + i - 1)>>]
       [] r.fam = "sort2" -> [i \in 1..n |-> LET x == RowAt(r.off + i, r.N, r.G) IN <<V(x[1]), V(x[2])>>]

Why(r) ==
  IF r.obs.outcome # "rows" THEN "outcome"
  ELSE IF r.fam \in {"sort", "sort2"} THEN (IF Rows(r) = SortExpected(r) THEN "ok" ELSE "rows")
  ELSE IF r.fam = "semi" THEN (IF Rows(r) = << <<V(SemiCount(r))>> >> THEN "ok" ELSE "rows")
  ELSE IF r.fam = "anti" THEN (IF Rows(r) = << <<V(IF r.nullkey THEN r.N - SemiCount(r) - Cnt(0, r.N, r.G) ELSE r.N - SemiCount(r))>> >> THEN "ok" ELSE "rows")
  ELSE IF NoDup(r) /\ RowSet(r) = Expected(r) THEN "ok" ELSE "rows"

TInit == l = 1
TNext == /\ l <= Len(Rec) /\ l' = l + 1
         /\ LET why == Why(Rec[l]) IN IF why = "ok" THEN TRUE ELSE PrintT(ToJson([mismatch |-> Rec[l].id, why |-> why]))
TSpec == TInit /\ [][TNext]_l
Accepted == TLCGet("stats").diameter - 1 = Len(Rec)
=============================================================================
