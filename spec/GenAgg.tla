-------------------------------- MODULE GenAgg --------------------------------
(* Generator for C07: grouping, aggregates (with DISTINCT and FILTER), ROLLUP /
   CUBE with GROUPING(), DISTINCT and UNION, over A(a,b) and S(a,s).           *)
EXTENDS Gen

A == Scan("A")
S == Scan("S")

AggI(src) ==   \* aggregates over integer column i of src (A: columns 1,2; S: column 1)
  LET cols == IF src = "A" THEN {1, 2} ELSE {1} IN
     { [n |-> "count_star", a |-> CountStar] }
\cup { [n |-> f, a |-> AggF(f, Col(i))] : f \in {"count", "sum", "min", "max", "avg", "var_pop", "var_samp"}, i \in cols }
\cup { [n |-> f \o "_distinct", a |-> AggD(f, Col(i))] : f \in {"count", "sum", "avg", "min"}, i \in cols }
\cup { [n |-> f \o "_filter", a |-> [f |-> f, x |-> Col(i), star |-> FALSE, dist |-> FALSE,
                                     filt |-> CmpE("ge", Col(i), LitI(1))]] : f \in {"sum", "count", "max"}, i \in cols }
\cup { [n |-> "count_star_filter", a |-> [f |-> "count", x |-> NoneE, star |-> TRUE, dist |-> FALSE,
                                          filt |-> IsNullE(Col(1))]] }
\cup { [n |-> f, a |-> AggF(f, CmpE("ge", Col(i), LitI(1)))] : f \in {"bool_and", "bool_or"}, i \in cols }
\cup { [n |-> "sum_expr", a |-> AggF("sum", Arith("mul", Col(1), Col(1)))] }

AggT == { [n |-> f \o "_text", a |-> AggF(f, Col(2))] : f \in {"min", "max", "count"} }
        \cup { [n |-> "count_distinct_text", a |-> AggD("count", Col(2))] }

Srcs == { [t |-> "A", q |-> A, aggs |-> AggI("A"), w |-> 2],
          [t |-> "S", q |-> S, aggs |-> AggI("S") \cup AggT, w |-> 2] }

Ungrouped == UNION { { [tag |-> <<"ungrouped", s.t, x.n>>, q |-> AggQ(s.q, <<>>, <<x.a>>)] : x \in s.aggs } : s \in Srcs }
Grouped1  == UNION { { [tag |-> <<"group1", s.t, x.n>>, q |-> AggQ(s.q, <<Col(k)>>, <<x.a>>)] : x \in s.aggs, k \in 1..2 } : s \in Srcs }
Grouped2  == { [tag |-> <<"group2", "A", x.n>>, q |-> AggQ(A, <<Col(1), Col(2)>>, <<x.a, CountStar>>)] : x \in AggI("A") }
GroupExpr == { [tag |-> <<"groupexpr", "A", x.n>>,
                q |-> AggQ(A, <<CmpE("ge", Col(1), LitI(1))>>, <<x.a>>)] : x \in AggI("A") }
(* filtered-empty input: aggregates over no rows *)
Empty == { [tag |-> <<"empty_ungrouped", "A", x.n>>, q |-> AggQ(Filter(A, False), <<>>, <<x.a>>)] : x \in AggI("A") }
         \cup { [tag |-> <<"empty_grouped", "A", x.n>>, q |-> AggQ(Filter(A, False), <<Col(1)>>, <<x.a>>)] : x \in AggI("A") }
Having == { [tag |-> <<"having", "A", x.n>>,
             q |-> Filter(AggQ(A, <<Col(1)>>, <<x.a>>), NotNullE(Col(2)))] : x \in AggI("A") }

RollupQ(keys, aggs, kind, sets, grouping) ==
  [k |-> "agg", c |-> A, keys |-> keys, aggs |-> aggs, gkind |-> kind, sets |-> sets, grouping |-> grouping]
Rollups == {
  [tag |-> <<"rollup", "A", "k1">>, q |-> RollupQ(<<Col(1)>>, <<CountStar, AggF("sum", Col(2))>>, "rollup", << <<1>>, <<>> >>, << <<1>> >>)],
  [tag |-> <<"rollup", "A", "k2">>, q |-> RollupQ(<<Col(1), Col(2)>>, <<CountStar>>, "rollup", << <<1, 2>>, <<1>>, <<>> >>, << <<1>>, <<2>>, <<1, 2>> >>)],
  [tag |-> <<"cube", "A", "k2">>, q |-> RollupQ(<<Col(1), Col(2)>>, <<CountStar, AggF("max", Col(2))>>, "cube", << <<1, 2>>, <<1>>, <<2>>, <<>> >>, << <<1, 2>> >>)],
  [tag |-> <<"cube", "A", "k1">>, q |-> RollupQ(<<Col(2)>>, <<AggF("min", Col(1))>>, "cube", << <<1>>, <<>> >>, <<>>)] }

Dedups == {
  [tag |-> <<"distinct", "A", "all">>, q |-> DistinctQ(A)],
  [tag |-> <<"distinct", "A", "col1">>, q |-> DistinctQ(Project(A, <<Col(1)>>))],
  [tag |-> <<"distinct", "S", "text">>, q |-> DistinctQ(Project(S, <<Col(2)>>))],
  [tag |-> <<"distinct", "A", "expr">>, q |-> DistinctQ(Project(A, <<IsNullE(Col(1)), Col(2)>>))],
  [tag |-> <<"union", "A", "self">>, q |-> UnionQ(FALSE, A, A)],
  [tag |-> <<"union", "A", "B">>, q |-> UnionQ(FALSE, A, Scan("B"))],
  [tag |-> <<"union_all", "A", "B">>, q |-> UnionQ(TRUE, A, Scan("B"))],
  [tag |-> <<"union", "A", "proj">>, q |-> UnionQ(FALSE, Project(A, <<Col(1)>>), Project(Scan("B"), <<Col(2)>>))],
  [tag |-> <<"count_distinct_pair", "A", "agg_over_distinct">>, q |-> AggQ(DistinctQ(A), <<>>, <<CountStar>>)] }

(* a filter on a grouping column above ROLLUP / CUBE (outer WHERE and HAVING): the rolled-up rows have NULL there and must be
   filtered AFTER grouping; and consumers of a DISTINCT that use only some of its columns (or none): the DISTINCT still
   deduplicates on all of them *)
FilteredSets == {
  [tag |-> <<"rollup_filter", "A", "k2_eq">>, q |-> Filter(RollupQ(<<Col(1), Col(2)>>, <<CountStar>>, "rollup", << <<1, 2>>, <<1>>, <<>> >>, <<>>), Eq(Col(2), LitI(1)))],
  [tag |-> <<"rollup_filter", "A", "k1_notnull">>, q |-> Filter(RollupQ(<<Col(1), Col(2)>>, <<CountStar>>, "rollup", << <<1, 2>>, <<1>>, <<>> >>, <<>>), NotNullE(Col(1)))],
  [tag |-> <<"cube_filter", "A", "k1_eq">>, q |-> Filter(RollupQ(<<Col(1), Col(2)>>, <<CountStar, AggF("sum", Col(2))>>, "cube", << <<1, 2>>, <<1>>, <<2>>, <<>> >>, <<>>), Eq(Col(1), LitI(1)))],
  [tag |-> <<"rollup_filter", "A", "k1_isnull">>, q |-> Filter(RollupQ(<<Col(1)>>, <<CountStar>>, "rollup", << <<1>>, <<>> >>, <<>>), IsNullE(Col(1)))],
  [tag |-> <<"distinct_consumer", "A", "count">>, q |-> AggQ(DistinctQ(A), <<>>, <<CountStar>>)],
  [tag |-> <<"distinct_consumer", "A", "col1">>, q |-> Project(DistinctQ(A), <<Col(1)>>)],
  [tag |-> <<"distinct_consumer", "A", "col2_filter">>, q |-> Project(Filter(DistinctQ(A), NotNullE(Col(2))), <<Col(2)>>)],
  [tag |-> <<"distinct_consumer", "A", "group_col1">>, q |-> AggQ(DistinctQ(A), <<Col(1)>>, <<CountStar>>)],
  [tag |-> <<"distinct_consumer", "S", "sum_col1">>, q |-> AggQ(DistinctQ(S), <<>>, <<AggF("sum", Col(1))>>)] }

Queries == FilteredSets \cup Ungrouped \cup Grouped1 \cup Grouped2 \cup GroupExpr \cup Empty \cup Having \cup Rollups \cup Dedups

VARIABLE c
Init == c \in Queries
Next == UNCHANGED c
Emit == PrintT(ToJson(c))
=============================================================================
