-------------------------------- MODULE Types --------------------------------
(* C18: type REQUIREMENTS (not a golden table).
   - TypesEq: what DESCRIBE announces, what the result's output schema says, the
     datatype of every array in every produced batch and the variant of every
     produced value agree (count, names, types incl. decimal (p,s) / time unit).
   - Determinism: one expression over the same input types receives the same type
     in every surrounding context.
   - CanHold(T, S): a value of type S is representable in T (UNION / VALUES
     unification must pick a type that can hold every branch).
   - ClassOK: the result class of an operator form (comparison -> Boolean, ...). *)
EXTENDS Naturals, Sequences, FiniteSets, TLC

SInts == {"Int8", "Int16", "Int32", "Int64", "Int128"}
UInts == {"UInt8", "UInt16", "UInt32", "UInt64", "UInt128"}
Floats == {"Float16", "Float32", "Float64"}
Bits(t) == CASE t \in {"Int8", "UInt8"} -> 8 [] t \in {"Int16", "UInt16", "Float16"} -> 16 [] t \in {"Int32", "UInt32", "Float32"} -> 32
             [] t \in {"Int64", "UInt64", "Float64"} -> 64 [] t \in {"Int128", "UInt128"} -> 128 [] OTHER -> 0
(* base = type name without parameters; dp, ds = decimal precision/scale (0 when not a decimal) *)
IsDec(b) == b \in {"Decimal64", "Decimal128"}
DigitsOf(b) == CASE b \in {"Int8", "UInt8"} -> 3 [] b \in {"Int16", "UInt16"} -> 5 [] b \in {"Int32", "UInt32"} -> 10
                 [] b = "Int64" -> 19 [] b = "UInt64" -> 20 [] b \in {"Int128", "UInt128"} -> 39 [] OTHER -> 0
CanHold(T, S) ==    \* T, S = [b |-> base, p |-> precision, s |-> scale]
  \/ T = S
  \/ S.b = "Null"
  \/ T.b \in SInts /\ S.b \in SInts /\ Bits(T.b) >= Bits(S.b)
  \/ T.b \in UInts /\ S.b \in UInts /\ Bits(T.b) >= Bits(S.b)
  \/ T.b \in SInts /\ S.b \in UInts /\ Bits(T.b) > Bits(S.b)
  \/ T.b \in Floats /\ S.b \in Floats /\ Bits(T.b) >= Bits(S.b)
  \/ T.b \in Floats /\ (S.b \in SInts \cup UInts \/ IsDec(S.b))          \* lossy but conventional: numeric -> float
  \/ IsDec(T.b) /\ IsDec(S.b) /\ T.s >= S.s /\ (T.p - T.s) >= (S.p - S.s)
  \/ IsDec(T.b) /\ S.b \in SInts \cup UInts /\ (T.p - T.s) >= DigitsOf(S.b)
  \/ T.b = "Utf8" \/ S.b = "Utf8"        \* text converts implicitly in either direction (a dialect choice; failures are run-time errors)

TypesEq(o) ==     \* o = [describe, schema, names, dnames, btypes, sbase, variants]
  /\ o.describe = o.schema /\ o.dnames = o.names
  /\ \A b \in DOMAIN o.btypes : o.btypes[b] = o.schema
  /\ \A c \in DOMAIN o.variants : \A v \in DOMAIN o.variants[c] : o.variants[c][v] = o.sbase[c]
AllSame(ts) == \A i \in DOMAIN ts : ts[i] = ts[1]
=============================================================================
