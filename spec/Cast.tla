-------------------------------- MODULE Cast --------------------------------
(* C13: a cast yields the source value exactly when the target can represent it,
   otherwise the neighbouring representable value chosen by ONE fixed rule per
   conversion kind (decimals round half away from zero, float -> integer
   truncates), or an error; text formats parse back to the value they print.

   Values are BigInt terms. A decimal is its unscaled integer u with (p, s):
   value = u / 10^s, valid iff |u| < 10^p. A float is transported exactly as
   m / 2^k (m BigInt, k >= 0) or as a special ("nan", "inf", "-inf").
   Text is a sequence of code points.                                         *)
EXTENDS IntArith

Two == FromInt(2)
Ten == FromInt(10)

FitsDec(u, p) == Lt(Abs(u), Pow10(p))

(* q = u / d rounded half away from zero (d > 0), checked not computed *)
RoundHalfAwayRel(u, d, q) ==
  LET r == Sub(u, Mul(q, d))            \* remainder of the chosen q
      twice == Mul(Two, Abs(r))
  IN \/ Lt(twice, d)
     \/ (twice = d /\ Lt(Abs(u), Abs(Mul(q, d))))       \* a tie: q is the neighbour further from zero
(* q = u / d truncated toward zero (d > 0) *)
TruncRel(u, d, q) ==
  LET r == Sub(u, Mul(q, d)) IN Lt(Abs(r), d) /\ (IsZero(r) \/ r.neg = u.neg)

(* out = [k |-> "val" | "err" | ..., v |-> BigInt] *)
IntToIntOK(v, ty, out) == IF InRange(ty, v) THEN out.k = "val" /\ out.v = v ELSE out.k = "err"

IntToDecOK(v, p, s, out) ==
  LET e == Mul(v, Pow10(s)) IN IF FitsDec(e, p) THEN out.k = "val" /\ out.v = e ELSE out.k = "err"

(* |round-half-away(u / 10^s)| is outside [lo, hi], decided without computing the quotient:
   q >= hi + 1  iff  2u >= (2 hi + 1) 10^s ;   q <= lo - 1  iff  2u <= (2 lo - 1) 10^s          *)
RoundedOutside(u, s, lo, hi) ==
  LET d == Pow10(s)
  IN \/ Le(Mul(Add(Mul(Two, hi), One), d), Mul(Two, u))
     \/ Le(Mul(Two, u), Mul(Sub(Mul(Two, lo), One), d))

(* decimal(p1,s1) -> decimal(p2,s2): never more digits than the target allows *)
DecToDecOK(u, s1, p2, s2, out) ==
  IF s2 >= s1
  THEN LET e == Mul(u, Pow10(s2 - s1)) IN IF FitsDec(e, p2) THEN out.k = "val" /\ out.v = e ELSE out.k = "err"
  ELSE LET lim == Sub(Pow10(p2), One)
       IN \/ out.k = "val" /\ RoundHalfAwayRel(u, Pow10(s1 - s2), out.v) /\ FitsDec(out.v, p2)
          \/ out.k = "err" /\ RoundedOutside(u, s1 - s2, Neg(lim), lim)

DecToIntOK(u, s, ty, out) ==
  \/ out.k = "val" /\ RoundHalfAwayRel(u, Pow10(s), out.v) /\ InRange(ty, out.v)
  \/ out.k = "err" /\ RoundedOutside(u, s, MinOf(ty), MaxOf(ty))

(* float m/2^k -> integer: truncation toward zero *)
FloatToIntOK(m, k, ty, out) ==
  \/ out.k = "val" /\ TruncRel(m, Pow2(k), out.v) /\ InRange(ty, out.v)
  \/ out.k = "err" /\ ( Le(Mul(Add(MaxOf(ty), One), Pow2(k)), m) \/ Le(m, Mul(Sub(MinOf(ty), One), Pow2(k))) )

(* ------------------------------ text grammar ------------------------------ *)
IsDigit(c) == c >= 48 /\ c <= 57
RECURSIVE DigitsVal(_)
DigitsVal(ds) == IF ds = <<>> THEN Zero
                 ELSE LET r == DigitsVal(SubSeq(ds, 1, Len(ds) - 1))
                      IN Add(Mul(r, Ten), FromInt(ds[Len(ds)] - 48))
AllDigits(ds) == ds # <<>> /\ \A i \in DOMAIN ds : IsDigit(ds[i])

(* canonical integer text: [-]digits without leading zeros (a single 0 allowed), never "-0" *)
IntText(txt, v) ==
  LET neg == txt # <<>> /\ txt[1] = 45
      ds  == IF neg THEN Tail(txt) ELSE txt
  IN /\ AllDigits(ds)
     /\ (Len(ds) > 1 => ds[1] # 48)
     /\ ~(neg /\ ds = <<48>>)
     /\ v = Mk(neg, DigitsVal(ds).mag)

(* canonical decimal text for scale s: [-]digits.digits with exactly s fractional digits (no point when s = 0) *)
DecText(txt, u, s) ==
  LET neg == txt # <<>> /\ txt[1] = 45
      body == IF neg THEN Tail(txt) ELSE txt
      dot == {i \in DOMAIN body : body[i] = 46}
  IN IF s = 0 THEN dot = {} /\ AllDigits(body) /\ u = Mk(neg, DigitsVal(body).mag)
     ELSE /\ \E i \in dot : dot = {i} /\ i >= 2 /\ Len(body) - i = s
                 /\ AllDigits(SubSeq(body, 1, i - 1)) /\ AllDigits(SubSeq(body, i + 1, Len(body)))
                 /\ u = Mk(neg, DigitsVal(SubSeq(body, 1, i - 1) \o SubSeq(body, i + 1, Len(body))).mag)

(* what a text -> integer cast may accept: optional surrounding spaces, optional sign, digits;
   anything else (garbage, empty, interior spaces, a second sign) must be an error *)
RECURSIVE StripL(_), StripR(_)
StripL(t) == IF t # <<>> /\ t[1] = 32 THEN StripL(Tail(t)) ELSE t
StripR(t) == IF t # <<>> /\ t[Len(t)] = 32 THEN StripR(SubSeq(t, 1, Len(t) - 1)) ELSE t
ParseIntOK(txt, ty, out) ==
  LET t == StripR(StripL(txt))
      signed == t # <<>> /\ t[1] \in {43, 45}
      ds == IF signed THEN Tail(t) ELSE t
      wellformed == AllDigits(ds)
      v == Mk(signed /\ t[1] = 45, DigitsVal(ds).mag)
      spaces == t # txt         \* surrounding whitespace: accepting or rejecting it is unspecified
  IN IF ~wellformed THEN out.k = "err"
     ELSE IF InRange(ty, v)
          THEN (out.k = "val" /\ out.v = v)
               \/ (spaces /\ out.k = "err")
               \/ (signed /\ t[1] = 45 /\ IsZero(v) /\ ~ty.s /\ out.k = "err")     \* "-0" for an unsigned type: unspecified
          ELSE out.k = "err"

(* text -> decimal(p, s): [sign] digits [ . digits ] denotes u / 10^k exactly; the cast is then the decimal -> decimal cast of
   that value (rounding half away from zero when k > s, error when the result needs more than p digits). Malformed text
   must be an error. Forms some engines accept and others reject - surrounding spaces, a leading '+', a missing integer
   or fraction part ('.5', '1.'), an exponent - are unspecified: a correct value or an error are both admitted.      *)
TextToDecOK(txt, p, s, out) ==
  LET t == StripR(StripL(txt))
      signed == t # <<>> /\ t[1] \in {43, 45}
      body == IF signed THEN Tail(t) ELSE t
      dots == {i \in DOMAIN body : body[i] = 46}
      ip == IF dots = {} THEN body ELSE SubSeq(body, 1, (CHOOSE i \in dots : TRUE) - 1)
      fp == IF dots = {} THEN <<>> ELSE SubSeq(body, (CHOOSE i \in dots : TRUE) + 1, Len(body))
      digitsOnly(q) == \A i \in DOMAIN q : IsDigit(q[i])
      wellformed == (\A i \in dots, j \in dots : i = j) /\ digitsOnly(ip) /\ digitsOnly(fp) /\ (ip # <<>> \/ fp # <<>>)
      strict == wellformed /\ t = txt /\ ~(signed /\ t[1] = 43) /\ ip # <<>> /\ (dots = {} \/ fp # <<>>)
      u == Mk(signed /\ t[1] = 45, DigitsVal(ip \o fp).mag)
      k == Len(fp)
      (* digits beyond the target scale: the parser either rounds half away from zero (like decimal -> decimal) or drops them
         (truncation toward zero): ONE fixed rule per conversion kind is what the property asks, both are admitted here *)
      trunc == IF k <= s THEN u ELSE Mk(u.neg, DigitsVal(SubSeq(ip \o fp, 1, Len(ip) + s)).mag)
      conv == DecToDecOK(u, k, p, s, out) \/ (k > s /\ DecToDecOK(trunc, s, p, s, out))
  IN IF ~wellformed THEN out.k = "err" \/ (\E i \in DOMAIN body : body[i] \in {69, 101}) \* an exponent form: unspecified
     ELSE IF strict THEN conv
     ELSE out.k = "err" \/ conv

(* --------------------------------- dates --------------------------------- *)
(* proleptic Gregorian civil date -> days since 1970-01-01 (native integers suffice) *)
IsLeap(y) == (y % 4 = 0 /\ y % 100 # 0) \/ y % 400 = 0
DaysInMonth(y, m) == CASE m \in {1, 3, 5, 7, 8, 10, 12} -> 31 [] m \in {4, 6, 9, 11} -> 30 [] OTHER -> IF IsLeap(y) THEN 29 ELSE 28
ValidDate(y, m, d) == m \in 1..12 /\ d >= 1 /\ d <= DaysInMonth(y, m)
FloorDiv(a, b) == IF a >= 0 THEN a \div b ELSE -((-a + b - 1) \div b)
DaysFromCivil(y0, m, d) ==
  LET y == IF m <= 2 THEN y0 - 1 ELSE y0
      era == FloorDiv(y, 400)
      yoe == y - era * 400
      mp == (m + 9) % 12
      doy == (153 * mp + 2) \div 5 + d - 1
      doe == yoe * 365 + yoe \div 4 - yoe \div 100 + doy
  IN era * 146097 + doe - 719468
DateCastOK(y, m, d, out) ==   \* 'YYYY-MM-DD'::DATE
  IF ValidDate(y, m, d) THEN out.k = "val" /\ out.v = FromInt(DaysFromCivil(y, m, d)) ELSE out.k = "err"
ASSUME DaysFromCivil(1970, 1, 1) = 0 /\ DaysFromCivil(2000, 3, 1) = 11017 /\ DaysFromCivil(1969, 12, 31) = -1
       /\ DaysFromCivil(1600, 2, 29) = -135081 /\ DaysFromCivil(1, 1, 1) = -719162
=============================================================================
