-------------------------------- MODULE Text --------------------------------
(* C20: strings are sequences of Unicode code points; every function is given
   by its definition on such sequences. LIKE follows the standard recursive
   definition with '\' (92) as the escape character.                          *)
EXTENDS Integers, Sequences, TLC

PCT == 37   UND == 95   ESC == 92   SPACE == 32

(* ---------------------------------- LIKE ---------------------------------- *)
(* a pattern ending in a lone escape character is unspecified *)
RECURSIVE LikeSpecified(_)
LikeSpecified(p) == IF p = <<>> THEN TRUE
                    ELSE IF p[1] = ESC THEN Len(p) >= 2 /\ LikeSpecified(Tail(Tail(p)))
                    ELSE LikeSpecified(Tail(p))

RECURSIVE Like(_, _)
Like(s, p) ==
  IF p = <<>> THEN s = <<>>
  ELSE IF p[1] = PCT THEN (IF Like(s, Tail(p)) THEN TRUE ELSE s # <<>> /\ Like(Tail(s), p))
  ELSE IF p[1] = UND THEN s # <<>> /\ Like(Tail(s), Tail(p))
  ELSE IF p[1] = ESC THEN s # <<>> /\ s[1] = p[2] /\ Like(Tail(s), Tail(Tail(p)))
  ELSE s # <<>> /\ s[1] = p[1] /\ Like(Tail(s), Tail(p))

(* the four rewrites of constant patterns, as specified by their preconditions *)
NoMeta(p) == \A i \in DOMAIN p : p[i] \notin {PCT, UND, ESC}
IsPrefixOf(a, s) == Len(a) <= Len(s) /\ SubSeq(s, 1, Len(a)) = a
IsSuffixOf(a, s) == Len(a) <= Len(s) /\ SubSeq(s, Len(s) - Len(a) + 1, Len(s)) = a
Contains(s, a) == \E i \in 0..(Len(s) - Len(a)) : SubSeq(s, i + 1, i + Len(a)) = a
RewriteLaws(s, a) ==
  NoMeta(a) => /\ Like(s, a) = (s = a)
               /\ Like(s, a \o <<PCT>>) = IsPrefixOf(a, s)
               /\ Like(s, <<PCT>> \o a) = IsSuffixOf(a, s)
               /\ Like(s, <<PCT>> \o a \o <<PCT>>) = Contains(s, a)

(* ------------------------------ string functions ------------------------------ *)
Reverse(s) == [i \in 1..Len(s) |-> s[Len(s) - i + 1]]
Take(s, n) == SubSeq(s, 1, IF n > Len(s) THEN Len(s) ELSE n)
TakeRight(s, n) == IF n >= Len(s) THEN s ELSE SubSeq(s, Len(s) - n + 1, Len(s))
RECURSIVE Rep(_, _)
Rep(s, n) == IF n <= 0 THEN <<>> ELSE s \o Rep(s, n - 1)
(* substring(s, start, len), start >= 1, len >= 0 *)
Substr(s, start, len) == IF start > Len(s) THEN <<>> ELSE SubSeq(s, start, IF start + len - 1 > Len(s) THEN Len(s) ELSE start + len - 1)
(* lpad/rpad to n >= 0 characters with a non-empty pad (truncating when s is longer) *)
PadSeq(pad, n) == Take(Rep(pad, n), n)
Lpad(s, n, pad) == IF Len(s) >= n THEN Take(s, n) ELSE PadSeq(pad, n - Len(s)) \o s
Rpad(s, n, pad) == IF Len(s) >= n THEN Take(s, n) ELSE s \o PadSeq(pad, n - Len(s))
RECURSIVE LTrim(_), RTrim(_)
LTrim(s) == IF s # <<>> /\ s[1] = SPACE THEN LTrim(Tail(s)) ELSE s
RTrim(s) == IF s # <<>> /\ s[Len(s)] = SPACE THEN RTrim(SubSeq(s, 1, Len(s) - 1)) ELSE s
Trim(s) == RTrim(LTrim(s))
(* position of the first occurrence, 1-based; 0 if absent *)
Strpos(s, a) == IF ~Contains(s, a) THEN 0
                ELSE 1 + CHOOSE i \in 0..(Len(s) - Len(a)) :
                           SubSeq(s, i + 1, i + Len(a)) = a /\ \A j \in 0..(i - 1) : SubSeq(s, j + 1, j + Len(a)) # a
RECURSIVE Replace(_, _, _)
Replace(s, from, to) ==    \* leftmost non-overlapping occurrences; an empty `from` replaces nothing
  IF from = <<>> \/ Len(s) < Len(from) THEN s
  ELSE IF SubSeq(s, 1, Len(from)) = from THEN to \o Replace(SubSeq(s, Len(from) + 1, Len(s)), from, to)
  ELSE <<s[1]>> \o Replace(Tail(s), from, to)
(* case mapping over the tabulated alphabet: a-z, A-Z, e-acute; everything else unchanged *)
UpperC(c) == IF c >= 97 /\ c <= 122 THEN c - 32 ELSE IF c = 233 THEN 201 ELSE c
LowerC(c) == IF c >= 65 /\ c <= 90 THEN c + 32 ELSE IF c = 201 THEN 233 ELSE c
Upper(s) == [i \in 1..Len(s) |-> UpperC(s[i])]
Lower(s) == [i \in 1..Len(s) |-> LowerC(s[i])]

(* result of function f on arguments (s, t, n, m): a string (sequence) or an integer/boolean as <<x>> *)
Fn(f, s, t, n, m) ==
  CASE f = "length"      -> <<Len(s)>>
    [] f = "reverse"     -> Reverse(s)
    [] f = "upper"       -> Upper(s)
    [] f = "lower"       -> Lower(s)
    [] f = "concat_op"   -> s \o t
    (* a negative count means "all but the last / first |n| characters" *)
    [] f = "left"        -> IF n >= 0 THEN Take(s, n) ELSE (IF Len(s) + n <= 0 THEN <<>> ELSE Take(s, Len(s) + n))
    [] f = "right"       -> IF n >= 0 THEN TakeRight(s, n) ELSE (IF Len(s) + n <= 0 THEN <<>> ELSE TakeRight(s, Len(s) + n))
    [] f = "substring"   -> Substr(s, n, m)
    [] f = "repeat"      -> Rep(s, n)
    [] f = "lpad"        -> Lpad(s, n, t)
    [] f = "rpad"        -> Rpad(s, n, t)
    [] f = "trim"        -> Trim(s)
    [] f = "ltrim"       -> LTrim(s)
    [] f = "rtrim"       -> RTrim(s)
    [] f = "strpos"      -> <<Strpos(s, t)>>
    [] f = "replace"     -> Replace(s, t, <<120>>)
    [] f = "starts_with" -> <<IF IsPrefixOf(t, s) THEN 1 ELSE 0>>
    [] f = "ends_with"   -> <<IF IsSuffixOf(t, s) THEN 1 ELSE 0>>
    [] f = "contains"    -> <<IF Contains(s, t) THEN 1 ELSE 0>>
=============================================================================
