----------------------------- MODULE GenSubquery -----------------------------
(* Generator for C09: subquery kind x correlation site, CTEs referenced 0..3
   times vs. the inlined form, over outer A(a,b) and inner B(a,b).            *)
EXTENDS Gen

A == Scan("A")
Bt == Scan("B")
O(i) == Outer(1, i)

(* inner queries, correlated on the outer row through different operators *)
Inner == {
  [n |-> "uncorr",        q |-> Project(Bt, <<Col(1)>>)],
  [n |-> "uncorr_empty",  q |-> Project(Filter(Bt, False), <<Col(1)>>)],
  [n |-> "filter_eq",     q |-> Project(Filter(Bt, Eq(Col(1), O(1))), <<Col(2)>>)],
  [n |-> "filter_lt",     q |-> Project(Filter(Bt, CmpE("lt", Col(1), O(1))), <<Col(2)>>)],
  [n |-> "filter_two",    q |-> Project(Filter(Bt, AndE(Eq(Col(1), O(1)), CmpE("ge", Col(2), O(2)))), <<Col(2)>>)],
  [n |-> "proj_outer",    q |-> Project(Filter(Bt, Eq(Col(1), O(1))), <<Arith("add", Col(2), O(2))>>)],
  [n |-> "distinct",      q |-> DistinctQ(Project(Filter(Bt, Eq(Col(1), O(1))), <<Col(2)>>))] }

(* inner queries producing exactly one row: aggregates *)
InnerAgg == {
  [n |-> "count_star",  q |-> AggQ(Filter(Bt, Eq(Col(1), O(1))), <<>>, <<CountStar>>)],
  [n |-> "count_col",   q |-> AggQ(Filter(Bt, Eq(Col(1), O(1))), <<>>, <<AggF("count", Col(2))>>)],
  [n |-> "sum",         q |-> AggQ(Filter(Bt, Eq(Col(1), O(1))), <<>>, <<AggF("sum", Col(2))>>)],
  [n |-> "max_lt",      q |-> AggQ(Filter(Bt, CmpE("lt", Col(1), O(1))), <<>>, <<AggF("max", Col(2))>>)],
  [n |-> "min_uncorr",  q |-> AggQ(Bt, <<>>, <<AggF("min", Col(1))>>)],
  [n |-> "sum_argouter", q |-> AggQ(Filter(Bt, Eq(Col(1), O(1))), <<>>, <<AggF("sum", Arith("mul", Col(2), O(2)))>>)] }

Scalar == { [tag |-> <<"scalar_select", x.n>>, q |-> Project(A, <<Col(1), Col(2), ScalarE(x.q)>>)] : x \in InnerAgg }
     \cup { [tag |-> <<"scalar_where", x.n>>, q |-> Filter(A, CmpE("ge", Col(2), ScalarE(x.q)))] : x \in InnerAgg }
     \cup { [tag |-> <<"scalar_coalesce", x.n>>, q |-> Project(A, <<Col(1), [k |-> "coalesce", args |-> <<ScalarE(x.q), LitI(7)>>]>>)] : x \in {y \in InnerAgg : y.n \in {"sum", "max_lt"}} }
Exists == { [tag |-> <<"exists", x.n>>, q |-> Filter(A, ExistsE(x.q))] : x \in Inner }
     \cup { [tag |-> <<"not_exists", x.n>>, q |-> Filter(A, NotE(ExistsE(x.q)))] : x \in Inner }
     \cup { [tag |-> <<"exists_select", x.n>>, q |-> Project(A, <<Col(1), ExistsE(x.q)>>)] : x \in Inner }
     \cup { [tag |-> <<"exists_or", x.n>>, q |-> Filter(A, OrE(ExistsE(x.q), Eq(Col(2), LitI(1))))] : x \in Inner }
InQ    == { [tag |-> <<"in", x.n>>, q |-> Filter(A, InSubE(Col(2), x.q))] : x \in Inner }
     \cup { [tag |-> <<"not_in", x.n>>, q |-> Filter(A, NotE(InSubE(Col(2), x.q)))] : x \in Inner }
     \cup { [tag |-> <<"in_select", x.n>>, q |-> Project(A, <<Col(1), Col(2), InSubE(Col(2), x.q)>>)] : x \in Inner }
Quant  == { [tag |-> <<"any_" \o op, x.n>>, q |-> Filter(A, QuantE(op, FALSE, Col(2), x.q))] : op \in {"eq", "lt", "ge"}, x \in Inner }
     \cup { [tag |-> <<"all_" \o op, x.n>>, q |-> Filter(A, QuantE(op, TRUE, Col(2), x.q))] : op \in {"ne", "gt", "le"}, x \in Inner }
     \cup { [tag |-> <<"all_select", x.n>>, q |-> Project(A, <<Col(1), Col(2), QuantE("gt", TRUE, Col(2), x.q)>>)] : x \in Inner }
(* two levels of nesting: the innermost references the outermost row (up = 2) *)
Nested == {
  [tag |-> <<"nested", "exists_exists">>,
   q |-> Filter(A, ExistsE(Filter(Bt, AndE(Eq(Col(1), O(1)), ExistsE(Filter(Scan("A"), Eq(Col(2), Outer(2, 2)))))))) ],
  [tag |-> <<"nested", "scalar_in_exists">>,
   q |-> Filter(A, ExistsE(Filter(Bt, CmpE("ge", Col(2), ScalarE(AggQ(Filter(Scan("A"), Eq(Col(1), Outer(2, 1))), <<>>, <<AggF("min", Col(2))>>)))))) ] }
(* lateral joins *)
Lateral == {
  [tag |-> <<"lateral", "cross_filter">>, q |-> LatJoin("cross", A, Filter(Bt, Eq(Col(1), O(1))), True, 2, 2)],
  [tag |-> <<"lateral", "left_filter">>, q |-> LatJoin("left", A, Filter(Bt, CmpE("lt", Col(2), O(2))), True, 2, 2)],
  [tag |-> <<"lateral", "cross_agg">>, q |-> LatJoin("cross", A, AggQ(Filter(Bt, Eq(Col(1), O(1))), <<>>, <<CountStar, AggF("sum", Col(2))>>), True, 2, 2)] }

(* correlated subqueries whose inner query is an aggregate WITH ITS OWN GROUP BY: decorrelation appends the outer columns
   to the grouping sets, after the existing group expressions *)
GroupedInner == {
  [tag |-> <<"exists", "grouped_inner">>,
   q |-> Filter(A, ExistsE(Filter(AggQ(Filter(Bt, Eq(Col(1), Outer(1, 1))), <<Col(2)>>, <<CountStar>>), CmpE("ge", Col(2), LitI(1)))))],
  [tag |-> <<"in", "grouped_inner">>,
   q |-> Filter(A, InSubE(Col(2), Project(AggQ(Filter(Bt, Eq(Col(1), Outer(1, 1))), <<Col(2)>>, <<CountStar>>), <<Col(2)>>)))],
  [tag |-> <<"scalar", "grouped_inner_max">>,
   q |-> Project(A, <<Col(1), ScalarE(AggQ(AggQ(Filter(Bt, Eq(Col(1), Outer(1, 1))), <<Col(2)>>, <<CountStar>>), <<>>, <<AggF("max", Col(2))>>))>>)],
  [tag |-> <<"lateral", "grouped_inner">>,
   q |-> LatJoin("inner", A, AggQ(Filter(Bt, Eq(Col(1), Outer(1, 1))), <<Col(2)>>, <<CountStar>>), True, 2, 2)] }

(* CTEs: referenced 0..3 times, against the inlined form *)
Body == Filter(A, NotNullE(Col(1)))
X == Scan("x")
Ctes == {
  [tag |-> <<"cte", "ref0">>, q |-> WithQ("x", Body, Bt)],
  [tag |-> <<"cte", "ref1">>, q |-> WithQ("x", Body, X)],
  [tag |-> <<"cte", "ref1_inline">>, q |-> Body],
  [tag |-> <<"cte", "ref2_union">>, q |-> WithQ("x", Body, UnionQ(TRUE, X, X))],
  [tag |-> <<"cte", "ref2_union_inline">>, q |-> UnionQ(TRUE, Body, Body)],
  [tag |-> <<"cte", "ref2_join">>, q |-> WithQ("x", Body, Join("inner", X, X, CmpE("lt", Col(1), Col(3)), 2, 2))],
  [tag |-> <<"cte", "ref2_join_inline">>, q |-> Join("inner", Body, Body, CmpE("lt", Col(1), Col(3)), 2, 2)],
  [tag |-> <<"cte", "ref3">>, q |-> WithQ("x", Body, UnionQ(TRUE, UnionQ(FALSE, X, X), X))],
  [tag |-> <<"cte", "ref_in_subquery">>, q |-> WithQ("x", Body, Filter(Bt, InSubE(Col(1), Project(X, <<Col(1)>>))))],
  [tag |-> <<"cte", "ref_filters_differ">>,
   q |-> WithQ("x", A, UnionQ(TRUE, Filter(X, Eq(Col(1), LitI(1))), Filter(X, IsNullE(Col(2)))))],
  (* only ONE reference is filtered: the other reference must still see every row of the CTE *)
  [tag |-> <<"cte", "ref_one_filtered">>,
   q |-> WithQ("x", A, UnionQ(TRUE, Filter(X, CmpE("gt", Col(2), LitI(0))), X))],
  [tag |-> <<"cte", "ref_one_filtered_join">>,
   q |-> WithQ("x", A, Join("inner", Filter(X, Eq(Col(1), LitI(1))), X, Eq(Col(2), Col(4)), 2, 2))],
  [tag |-> <<"cte", "ref_one_filtered_sub">>,
   q |-> WithQ("x", A, Project(Bt, <<Col(1), ScalarE(AggQ(Filter(X, AndE(Eq(Col(1), Outer(1, 1)), CmpE("gt", Col(2), LitI(0)))), <<>>, <<AggF("sum", Col(2))>>)),
                                   ScalarE(AggQ(Filter(X, Eq(Col(1), Outer(1, 1))), <<>>, <<AggF("sum", Col(2))>>))>>))],
  [tag |-> <<"cte", "agg_body_twice">>,
   q |-> WithQ("x", AggQ(A, <<Col(1)>>, <<CountStar>>), Join("inner", X, X, Eq(Col(2), Col(4)), 2, 2))],
  [tag |-> <<"cte", "nested_cte">>, q |-> WithQ("x", Body, WithQ("y", DistinctQ(X), UnionQ(TRUE, Scan("y"), X)))],
  (* a CTE with a nondeterministic body: every reference must observe the same rows *)
  [tag |-> <<"cte", "limit_body_self_except">>,
   q |-> WithQ("x", LimitQ(A, 1, 0), Join("anti", X, X, AndE(NotDistinctE(Col(1), Col(3)), NotDistinctE(Col(2), Col(4))), 2, 2))] }

Queries == Scalar \cup Exists \cup InQ \cup Quant \cup Nested \cup Lateral \cup Ctes \cup GroupedInner

VARIABLE c
Init == c \in Queries
Next == UNCHANGED c
Emit == PrintT(ToJson(c))
=============================================================================
