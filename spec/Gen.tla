--------------------------------- MODULE Gen ---------------------------------
(* Helpers shared by the generator specifications: term constructors and the
   enumeration of small tables as bags (each bag once, as a canonical
   sequence).                                                                *)
EXTENDS Values, Json

Col(i)      == [k |-> "col", up |-> 0, i |-> i]
Outer(u, i) == [k |-> "col", up |-> u, i |-> i]
LitI(n)     == [k |-> "lit", v |-> <<n>>, c |-> "i"]
LitT(n)     == [k |-> "lit", v |-> <<n>>, c |-> "t"]
NullI       == [k |-> "lit", v |-> <<>>, c |-> "i"]
True        == [k |-> "lit", v |-> <<1>>, c |-> "b"]
False       == [k |-> "lit", v |-> <<0>>, c |-> "b"]
NullB       == [k |-> "lit", v |-> <<>>, c |-> "b"]
CmpE(op, a, b) == [k |-> "cmp", op |-> op, l |-> a, r |-> b]
Eq(a, b)    == CmpE("eq", a, b)
AndE(a, b)  == [k |-> "and", l |-> a, r |-> b]
OrE(a, b)   == [k |-> "or", l |-> a, r |-> b]
NotE(a)     == [k |-> "not", x |-> a]
IsNullE(a)  == [k |-> "isnull", x |-> a]
NotNullE(a) == [k |-> "notnull", x |-> a]
NotDistinctE(a, b) == [k |-> "notdistinct", l |-> a, r |-> b]
DistinctE(a, b) == [k |-> "distinct", l |-> a, r |-> b]
Arith(op, a, b) == [k |-> "arith", op |-> op, l |-> a, r |-> b]
NoneE       == [k |-> "none"]

Scan(t)     == [k |-> "scan", t |-> t]
Filter(c, p) == [k |-> "filter", c |-> c, p |-> p]
Project(c, es) == [k |-> "project", c |-> c, es |-> es]
Join(jt, l, r, on, lw, rw) ==
  [k |-> "join", jt |-> jt, l |-> l, r |-> r, on |-> on, lateral |-> FALSE, lw |-> lw, rw |-> rw]
LatJoin(jt, l, r, on, lw, rw) ==
  [k |-> "join", jt |-> jt, l |-> l, r |-> r, on |-> on, lateral |-> TRUE, lw |-> lw, rw |-> rw]
AggQ(c, keys, aggs) ==
  [k |-> "agg", c |-> c, keys |-> keys, aggs |-> aggs, gkind |-> "plain",
   sets |-> << [i \in 1..Len(keys) |-> i] >>, grouping |-> <<>>]
AggF(f, x)  == [f |-> f, x |-> x, star |-> FALSE, dist |-> FALSE, filt |-> NoneE]
AggD(f, x)  == [f |-> f, x |-> x, star |-> FALSE, dist |-> TRUE, filt |-> NoneE]
CountStar   == [f |-> "count", x |-> NoneE, star |-> TRUE, dist |-> FALSE, filt |-> NoneE]
DistinctQ(c) == [k |-> "distinct", c |-> c]
UnionQ(all, l, r) == [k |-> "union", all |-> all, l |-> l, r |-> r]
SortK(e, desc, nf) == [e |-> e, desc |-> desc, nf |-> nf]
SortQ(c, keys) == [k |-> "sort", c |-> c, keys |-> keys]
LimitQ(c, n, off) == [k |-> "limit", c |-> c, n |-> n, off |-> off]
WithQ(name, body, c) == [k |-> "with", name |-> name, body |-> body, c |-> c]
ScalarE(q)  == [k |-> "scalar", q |-> q]
ExistsE(q)  == [k |-> "exists", q |-> q]
InSubE(x, q) == [k |-> "insub", x |-> x, q |-> q]
QuantE(op, all, x, q) == [k |-> "quant", op |-> op, all |-> all, x |-> x, q |-> q]

(* --- tables as bags: every multiset of <= maxRows rows of width w over
       {NULL, 0..maxVal}, once, as the sequence sorted by row code ---       *)
NBase(maxVal) == maxVal + 2
ValOf(d)     == IF d = 0 THEN <<>> ELSE <<d - 1>>
RECURSIVE Pow(_, _)
Pow(b, e)    == IF e = 0 THEN 1 ELSE b * Pow(b, e - 1)
RowOf(code, w, maxVal) ==
  [j \in 1..w |-> ValOf((code \div Pow(NBase(maxVal), w - j)) % NBase(maxVal))]
NonDecr(S, n) == {s \in [1..n -> S] : \A i \in 1..(n - 1) : s[i] <= s[i + 1]}
Tables(w, maxRows, maxVal) ==
  UNION { { [i \in 1..n |-> RowOf(cs[i], w, maxVal)] : cs \in NonDecr(0..(Pow(NBase(maxVal), w) - 1), n) }
          : n \in 0..maxRows }
=============================================================================
