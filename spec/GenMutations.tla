---------------------------- MODULE GenMutations ----------------------------
(* Generator for C15: token-level mutations of a corpus of valid statements
   covering every statement kind and clause. A state is a (base statement,
   position, edit) triple; TLC enumerates all single edits exhaustively (BFS
   over Init) and -simulate composes double edits.                            *)
EXTENDS Naturals, Sequences, TLC, Json

CONSTANTS Double    \* FALSE: single edits (exhaustive); TRUE: a second edit on top (simulate / sampled)

Corpus == <<
  <<"SELECT", "a", ",", "b", "FROM", "t", "WHERE", "a", ">", "1", "ORDER", "BY", "a", "DESC", "LIMIT", "2">>,
  <<"SELECT", "t", ".", "a", ",", "count", "(", "*", ")", "FROM", "t", "GROUP", "BY", "t", ".", "a", "HAVING", "count", "(", "*", ")", ">", "0">>,
  <<"SELECT", "*", "FROM", "t", "LEFT", "JOIN", "u", "ON", "t", ".", "a", "=", "u", ".", "a">>,
  <<"SELECT", "a", "FROM", "t", "UNION", "ALL", "SELECT", "a", "FROM", "u">>,
  <<"WITH", "x", "AS", "(", "SELECT", "a", "FROM", "t", ")", "SELECT", "*", "FROM", "x">>,
  <<"SELECT", "a", "FROM", "t", "WHERE", "a", "IN", "(", "SELECT", "a", "FROM", "u", ")">>,
  <<"SELECT", "CASE", "WHEN", "a", "=", "1", "THEN", "'x'", "ELSE", "b", "END", "FROM", "t">>,
  <<"SELECT", "sum", "(", "a", ")", "/", "count", "(", "b", ")", "FROM", "t">>,
  <<"SELECT", "a", "::", "TEXT", "||", "b", "FROM", "t">>,
  <<"SELECT", "CAST", "(", "b", "AS", "INT", ")", "FROM", "t">>,
  <<"INSERT", "INTO", "t", "VALUES", "(", "3", ",", "'z'", ")">>,
  <<"INSERT", "INTO", "t", "SELECT", "a", ",", "b", "FROM", "t">>,
  <<"CREATE", "TEMP", "TABLE", "w", "(", "a", "INT", ",", "b", "TEXT", ")">>,
  <<"CREATE", "TEMP", "TABLE", "w", "AS", "SELECT", "a", "FROM", "t">>,
  <<"CREATE", "TEMP", "VIEW", "vv", "AS", "SELECT", "a", "FROM", "t">>,
  <<"CREATE", "SCHEMA", "IF", "NOT", "EXISTS", "s2">>,
  <<"DROP", "TABLE", "IF", "EXISTS", "u">>,
  <<"DROP", "SCHEMA", "s1">>,
  <<"SET", "partitions", "=", "3">>,
  <<"RESET", "batch_size">>,
  <<"SHOW", "partitions">>,
  <<"DESCRIBE", "SELECT", "a", "FROM", "t">>,
  <<"EXPLAIN", "SELECT", "a", "FROM", "t", "WHERE", "a", "=", "1">>,
  <<"SELECT", "*", "FROM", "generate_series", "(", "1", ",", "3", ")">>,
  <<"SELECT", "a", "FROM", "t", "WHERE", "b", "LIKE", "'x%'", "AND", "NOT", "a", "IS", "NULL">>,
  <<"VALUES", "(", "1", ",", "'a'", ")", ",", "(", "2", ",", "NULL", ")">>
>>

Alphabet == {"SELECT", "FROM", "WHERE", "GROUP", "BY", "JOIN", "ON", "(", ")", ",", ".", "*", "=", "-", "/", "'", "''",
             "NULL", "0", "-1", "9223372036854775807", "1e400", "t", "nosuch", "a", "count", "sum", "AS", ";", "::",
             "INT", "NOT", "IN", "LIMIT", "ORDER", "UNION", "\"", "$1", "%"}

Edits == {"delete", "dup", "swap", "replace"}

Apply(s, pos, edit, tok) ==
  CASE edit = "delete"  -> SubSeq(s, 1, pos - 1) \o SubSeq(s, pos + 1, Len(s))
    [] edit = "dup"     -> SubSeq(s, 1, pos) \o SubSeq(s, pos, Len(s))
    [] edit = "swap"    -> IF pos < Len(s) THEN SubSeq(s, 1, pos - 1) \o <<s[pos + 1], s[pos]>> \o SubSeq(s, pos + 2, Len(s)) ELSE s
    [] edit = "replace" -> [s EXCEPT ![pos] = tok]

VARIABLES toks, base, nedits
Init == /\ nedits = 1
        /\ \E b \in DOMAIN Corpus : \E pos \in DOMAIN Corpus[b] : \E e \in Edits :
              \E tok \in (IF e = "replace" THEN Alphabet ELSE {""}) :
                 /\ base = b /\ toks = Apply(Corpus[b], pos, e, tok)
Next == /\ Double /\ nedits = 1 /\ toks # <<>>
        /\ \E pos \in DOMAIN toks : \E e \in Edits : \E tok \in (IF e = "replace" THEN Alphabet ELSE {""}) :
              toks' = Apply(toks, pos, e, tok)
        /\ nedits' = 2 /\ UNCHANGED base
Spec == Init /\ [][Next]_<<toks, base, nedits>>
Emit == PrintT(ToJson([base |-> base, toks |-> toks, n |-> nedits]))
=============================================================================
