---------------------------- MODULE ParquetLayout ----------------------------
(* A column chunk as the reader sees it: a sequence of pages, each a sequence of
   definition-level runs ([def |-> 0|1, n |-> length]); defined positions consume
   the next value of the page's value stream. The reader is resumable: Read(k)
   delivers the next k logical cells and may stop inside a run, exactly at a
   page end, or inside the last page.

   Model-checked claim: for every layout and every sequence of read sizes the
   concatenated outputs equal the logical column (values and NULL positions).  *)
EXTENDS Naturals, Sequences, TLC

CONSTANTS N,          \* length of the logical column
          MaxRead

VARIABLE Cells        \* the logical column: a sequence of cells, 0 = NULL, v > 0 = value (chosen initially)

VARIABLES layout,     \* << page >>, page = << [def, n] >>
          pg, rn, off, \* reader position: page, run within page, offset within run
          delivered   \* cells delivered so far
vars == <<Cells, layout, pg, rn, off, delivered>>

(* all ways to cut a sequence of length n into consecutive non-empty pieces, as sets of cut points *)
Cuts(n) == SUBSET (1..(n - 1))
Pieces(s, cuts) ==
  LET pts == <<0>> \o [i \in 1..Len(s) |-> i]
      RECURSIVE build(_, _)
      build(i, start) == IF i > Len(s) THEN <<>>
                         ELSE IF i = Len(s) \/ i \in cuts THEN <<SubSeq(s, start, i)>> \o build(i + 1, i + 1)
                         ELSE build(i + 1, start)
  IN build(1, 1)

(* run-length encode the definition levels of a page, additionally cut at the given points *)
Def(c) == IF c = 0 THEN 0 ELSE 1
RECURSIVE Runs(_, _)
Runs(cells, splits) ==
  IF cells = <<>> THEN <<>>
  ELSE LET RECURSIVE len(_)
           len(i) == IF i < Len(cells) /\ Def(cells[i + 1]) = Def(cells[1]) /\ i \notin splits THEN len(i + 1) ELSE i
           k == len(1)
       IN <<[def |-> Def(cells[1]), n |-> k]>> \o Runs(SubSeq(cells, k + 1, Len(cells)), {s - k : s \in {x \in splits : x > k}})

Init == /\ Cells \in [1..N -> 0..2]
        /\ \E pc \in Cuts(Len(Cells)) : \E rs \in SUBSET (1..Len(Cells)) :
             layout = [p \in 1..Len(Pieces(Cells, pc)) |-> Runs(Pieces(Cells, pc)[p], rs)]
        /\ pg = 1 /\ rn = 1 /\ off = 0 /\ delivered = <<>>

PageLen(p) == LET RECURSIVE sum(_) sum(i) == IF i > Len(layout[p]) THEN 0 ELSE layout[p][i].n + sum(i + 1) IN sum(1)
PageStart(p) == LET RECURSIVE sum(_) sum(i) == IF i >= p THEN 0 ELSE PageLen(i) + sum(i + 1) IN sum(1)
RunStart(p, r) == LET RECURSIVE sum(_) sum(i) == IF i >= r THEN 0 ELSE layout[p][i].n + sum(i + 1) IN sum(1)
Pos == IF pg > Len(layout) THEN Len(Cells) ELSE PageStart(pg) + RunStart(pg, rn) + off

(* one cell step of the reader: emits a NULL for an undefined position, else the next value *)
RECURSIVE Advance(_, _, _, _, _)
Advance(p, r, o, k, out) ==
  IF k = 0 \/ p > Len(layout) THEN [pg |-> p, rn |-> r, off |-> o, out |-> out]
  ELSE IF r > Len(layout[p]) THEN Advance(p + 1, 1, 0, k, out)
  ELSE IF o >= layout[p][r].n THEN Advance(p, r + 1, 0, k, out)
  ELSE LET abs == PageStart(p) + RunStart(p, r) + o + 1
           cell == IF layout[p][r].def = 0 THEN 0 ELSE Cells[abs]
       IN Advance(p, r, o + 1, k - 1, Append(out, cell))

Read(k) == /\ Len(delivered) < Len(Cells)
           /\ LET a == Advance(pg, rn, off, k, <<>>) IN
              /\ pg' = a.pg /\ rn' = a.rn /\ off' = a.off
              /\ delivered' = delivered \o a.out
           /\ UNCHANGED <<layout, Cells>>
Next == \E k \in 1..MaxRead : Read(k)
Spec == Init /\ [][Next]_vars

(* never skips or duplicates: what was delivered is a prefix of the logical column *)
PrefixDelivered == delivered = SubSeq(Cells, 1, Len(delivered))
(* a run marked undefined holds only NULLs and vice versa (the layout is a faithful encoding) *)
LayoutFaithful == \A p \in DOMAIN layout : \A r \in DOMAIN layout[p] :
   \A i \in 1..layout[p][r].n : (Cells[PageStart(p) + RunStart(p, r) + i] = 0) = (layout[p][r].def = 0)
Complete == <>(delivered = Cells)
=============================================================================
