------------------------------- MODULE DecArith -------------------------------
(* C12 (decimals): add, subtract, multiply, unary minus, abs and SUM over DECIMAL(p, s) values, and
   mixed integer / decimal operands, are exact in the announced result type
   DECIMAL(p', s') or fail. A decimal is its unscaled integer u (BigInt) with a
   scale: value = u / 10^s; an integer operand is a decimal of scale 0.

   The result scale rules of the engine (max scale for add and subtract, sum of
   scales for multiply) make every exact result representable at scale s'; what can fail is
   the precision: |u'| < 10^p' must hold, otherwise the statement must fail.
   A result announced with a scale below what exactness needs is reported as
   a mismatch of its own ("scale").                                            *)
EXTENDS IntArith

FitsDec(u, p) == Lt(Abs(u), Pow10(p))
Rescale(u, from, to) == Mul(u, Pow10(to - from))          \* to >= from

ExactDec(op, u1, s1, u2, s2, st) ==      \* the exact result's unscaled integer at scale st
  CASE op = "add" -> Add(Rescale(u1, s1, st), Rescale(u2, s2, st))
    [] op = "sub" -> Sub(Rescale(u1, s1, st), Rescale(u2, s2, st))
    [] op = "mul" -> Rescale(Mul(u1, u2), s1 + s2, st)
    [] op = "neg" -> Rescale(Neg(u1), s1, st)
    [] op = "abs" -> Rescale(Abs(u1), s1, st)
NeededScale(op, s1, s2) == IF op = "mul" THEN s1 + s2 ELSE IF op \in {"neg", "abs"} THEN s1 ELSE IF s1 > s2 THEN s1 ELSE s2

(* out = [k |-> "val", v |-> BigInt, p |-> announced precision, s |-> announced scale] | [k |-> "err"] | other *)
DecWhy(op, u1, s1, u2, s2, out) ==
  IF out.k = "err" THEN
       (* an error is right exactly when no admissible result type could hold the value: the engine's result type is
          only known from a successful run, so the judge asks the widest type of the operands' family (mp) *)
       "err?"
  ELSE IF out.k # "val" THEN "outcome"
  ELSE IF out.s < NeededScale(op, s1, s2) THEN "scale"
  ELSE LET e == ExactDec(op, u1, s1, u2, s2, out.s)
       IN IF out.v # e THEN "value" ELSE IF ~FitsDec(out.v, out.p) THEN "precision" ELSE "ok"
(* an error outcome is judged against the announced type of the same expression (from DESCRIBE): rp, rs *)
DecErrOK(op, u1, s1, u2, s2, rp, rs) ==
  rs < NeededScale(op, s1, s2) \/ ~FitsDec(ExactDec(op, u1, s1, u2, s2, rs), rp)

DecOK(op, u1, s1, u2, s2, rp, rs, out) ==
  IF out.k = "err" THEN (IF DecErrOK(op, u1, s1, u2, s2, rp, rs) THEN "ok" ELSE "spurious-error")
  ELSE DecWhy(op, u1, s1, u2, s2, out)

(* SUM over a decimal column of scale s: exact at the announced scale or an error *)
RECURSIVE SumDec(_)
SumDec(vs) == IF vs = <<>> THEN Zero ELSE LET r == SumDec(Tail(vs)) IN Add(Head(vs), r)
SumDecOK(vs, s, rp, rs, out) ==
  IF rs < s THEN "scale"
  ELSE LET e == Rescale(SumDec(vs), s, rs) IN
       IF out.k = "err" THEN (IF ~FitsDec(e, rp) THEN "ok" ELSE "spurious-error")
       ELSE IF out.k # "val" THEN "outcome"
       ELSE IF out.v # e THEN "value" ELSE IF ~FitsDec(out.v, out.p) THEN "precision" ELSE "ok"

(* round(x, d), d >= 0, x = u / 10^s: round half away from zero to d' = min(d, s) fractional digits. The result is announced
   at scale rs >= d'; w is a WITNESS supplied with the observation (the observed unscaled result divided by 10^(rs - d')),
   verified here, never trusted: out.v = w * 10^(rs - d') and w is the half-away rounding of u / 10^(s - d').            *)
RoundHalfAwayRel(u, dd, q) ==
  LET r == Sub(u, Mul(q, dd))
      twice == Mul(FromInt(2), Abs(r))
  IN \/ Lt(twice, dd)
     \/ (twice = dd /\ Lt(Abs(u), Abs(Mul(q, dd))))
RoundOK(u, s, d, rp, rs, out, w) ==
  LET dk == IF d < s THEN d ELSE s IN
  IF out.k = "err" THEN "err?"          \* decided by RoundErrOK
  ELSE IF out.k # "val" THEN "outcome"
  ELSE IF out.s < dk THEN "scale"
  ELSE IF out.v # Mul(w, Pow10(out.s - dk)) THEN "value"             \* digits below the kept ones are not zero
  ELSE IF ~RoundHalfAwayRel(u, Pow10(s - dk), w) THEN "value"
  ELSE IF ~FitsDec(out.v, out.p) THEN "precision" ELSE "ok"
(* an error is right only when the rounded value does not fit the announced type; the largest magnitude a rounding can
   produce from |u| < 10^p is 10^(p - (s - dk)), so an error for |u| * 10^(rs - s) + 10^rs ... is judged conservatively:
   an error is accepted iff even the truncated value scaled to rs does not fit, or rounding up reaches 10^rp          *)
RoundErrOK(u, s, d, rp, rs) ==
  LET dk == IF d < s THEN d ELSE s
      up == Add(Abs(u), Pow10(s - dk))                    \* |u| rounded up by at most one kept unit
  IN rs < dk \/ ~FitsDec(Rescale(up, s, IF rs > s THEN rs ELSE s), rp + (IF rs > s THEN 0 ELSE s - rs))

ASSUME RoundHalfAwayRel(FromInt(-25), FromInt(10), FromInt(-3)) /\ ~RoundHalfAwayRel(FromInt(-25), FromInt(10), FromInt(-2))
ASSUME RoundOK(FromInt(-125), 3, 2, 5, 2, [k |-> "val", v |-> FromInt(-13), p |-> 5, s |-> 2], FromInt(-13)) = "ok"
ASSUME RoundOK(FromInt(-125), 3, 2, 5, 2, [k |-> "val", v |-> FromInt(-12), p |-> 5, s |-> 2], FromInt(-12)) = "value"
ASSUME RoundOK(FromInt(15), 1, 0, 3, 1, [k |-> "val", v |-> FromInt(20), p |-> 3, s |-> 1], FromInt(2)) = "ok"
ASSUME ExactDec("add", FromInt(125), 2, FromInt(5), 1, 2) = FromInt(175)          \* 1.25 + 0.5 = 1.75
ASSUME ExactDec("mul", FromInt(125), 2, FromInt(-5), 1, 3) = FromInt(-625)        \* 1.25 * -0.5 = -0.625
ASSUME DecOK("add", FromInt(999), 1, FromInt(1), 1, 3, 1, [k |-> "err"]) = "ok"   \* 99.9 + 0.1 does not fit DECIMAL(3,1)
ASSUME DecOK("add", FromInt(998), 1, FromInt(1), 1, 3, 1, [k |-> "err"]) = "spurious-error"
=============================================================================
