------------------------------ MODULE GenParquet ------------------------------
(* Generator for C10/C11/C19: abstract Parquet files. A state is a file:
   the NULL pattern / value ids of a logical column of <= N cells (every pattern),
   page boundaries, row-group boundaries (a subset of the page boundaries),
   page version, value encoding (PLAIN, dictionary, DELTA_BINARY_PACKED / DELTA_LENGTH_BYTE_ARRAY,
   DELTA_BYTE_ARRAY, BYTE_STREAM_SPLIT - whichever applies to the physical type), codec, level-run structure,
   optionality.
   The orchestrator instantiates the value ids with type-specific boundary
   values for every physical / logical type and writes the bytes with pqwrite. *)
EXTENDS Naturals, Sequences, FiniteSets, TLC, Json

CONSTANTS N, SampleK

VARIABLE f
Init ==
  \E n \in 1..N :
  \E cells \in [1..n -> 0..3] :          \* 0 = NULL, 1..3 = value ids (repeats exercise the dictionary)
  \E pcuts \in SUBSET (1..(n - 1)) :
  \E gcuts \in SUBSET pcuts :
  \E ver \in {1, 2}, codec \in {"UNCOMPRESSED", "GZIP"}, runs \in {"rle", "bitpacked", "mixed"} :
  \E enc \in {"plain", "dict", "delta", "delta_prefix", "bss"} :      \* value encoding of the data pages
     f = [cells |-> cells, pcuts |-> pcuts, gcuts |-> gcuts, ver |-> ver, dict |-> (enc = "dict"), enc |-> enc, codec |-> codec, runs |-> runs,
          optional |-> (\E i \in 1..n : cells[i] = 0) \/ (n % 2 = 0)]
Next == UNCHANGED f
Emit == (SampleK = 1 \/ RandomElement(1..SampleK) = 1) => PrintT(ToJson(f))
=============================================================================
