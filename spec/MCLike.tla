-------------------------------- MODULE MCLike --------------------------------
(* Laws of the LIKE definition itself (keeps the oracle honest): '%' matches
   everything, and the four constant-pattern rewrites are equivalences under
   their preconditions, for all strings and literals of length <= 3 over a
   small alphabet including a newline and a multi-byte character.             *)
EXTENDS Text, FiniteSets
Alpha == {97, 98, 10, 233}
Strs(n) == UNION { [1..k -> Alpha] : k \in 0..n }
ASSUME \A s \in Strs(3) : Like(s, <<PCT>>) /\ Like(s, <<PCT, PCT>>)
ASSUME \A s \in Strs(3), a \in Strs(2) : RewriteLaws(s, a)
ASSUME \A s \in Strs(3) : Like(s, s) /\ (s # <<>> => Like(s, <<UND>> \o Tail(s)))
ASSUME Like(<<37>>, <<ESC, 37>>) /\ ~Like(<<97>>, <<ESC, 37>>) /\ Like(<<97, 92, 98>>, <<97, ESC, ESC, 98>>)
VARIABLE x
Init == x = 0
Next == UNCHANGED x
=============================================================================
