-------------------------------- MODULE Scale --------------------------------
(* Closed forms for the "scale" families: inputs of tens of thousands of rows
   built by formula, so that hash tables grow, partial states merge, sorts use
   many runs and joins fill many blocks - while the expected answer stays a
   formula TLC evaluates in linear time.

   T(N) has one row per v in 1..N with key k = v % G (nullkey: the key of the
   rows with v % G = 0 is NULL instead of 0). Each closed form is justified by a
   lemma TLC checks against the brute-force definition on all small (N, G) when
   the module is loaded (ASSUME).                                              *)
EXTENDS Integers, Sequences, FiniteSets, SequencesExt, FiniteSetsExt

FirstV(g, G) == IF g = 0 THEN G ELSE g
Cnt(g, N, G) == IF FirstV(g, G) > N THEN 0 ELSE (N - FirstV(g, G)) \div G + 1
LastV(g, N, G) == FirstV(g, G) + (Cnt(g, N, G) - 1) * G
SumG(g, N, G) == LET c == Cnt(g, N, G) IN c * FirstV(g, G) + G * ((c * (c - 1)) \div 2)
Var12(g, N, G) == LET c == Cnt(g, N, G) IN G * G * (c * c - 1)            \* 12 * var_pop of the group's v

(* ORDER BY k ASC, v DESC over T(N) (no NULL keys): the row at 1-based position i *)
RowAt(i, N, G) ==
  LET q == N \div G  r == N % G
      gj == IF i <= q THEN <<0, i>>
            ELSE LET i1 == i - q IN
                 IF i1 <= r * (q + 1) THEN <<1 + (i1 - 1) \div (q + 1), ((i1 - 1) % (q + 1)) + 1>>
                 ELSE LET i2 == i1 - r * (q + 1) IN <<r + 1 + (i2 - 1) \div q, ((i2 - 1) % q) + 1>>
  IN <<gj[1], LastV(gj[1], N, G) - (gj[2] - 1) * G>>

(* -------- brute force, for the lemmas -------- *)
Members(g, N, G) == {v \in 1..N : v % G = g}
SumOfSet(S) == FoldSet(LAMBDA x, acc : x + acc, 0, S)
SqSum(S) == FoldSet(LAMBDA x, acc : x * x + acc, 0, S)
BruteSorted(N, G) ==
  SortSeq(SetToSeq(1..N), LAMBDA a, b : (a % G < b % G) \/ (a % G = b % G /\ a > b))

ASSUME \A N \in 1..40, G \in 1..9 : \A g \in 0..(G - 1) :
         LET M == Members(g, N, G) c == Cardinality(M) IN
         /\ Cnt(g, N, G) = c
         /\ (c > 0 => Min(M) = FirstV(g, G) /\ Max(M) = LastV(g, N, G))
         /\ SumG(g, N, G) = SumOfSet(M)
         /\ (c > 0 => 12 * c * SqSum(M) - 12 * SumOfSet(M) * SumOfSet(M) = Var12(g, N, G) * c * c)
ASSUME \A N \in 1..30, G \in 1..7 : N >= G =>
         LET s == BruteSorted(N, G) IN \A i \in 1..N : RowAt(i, N, G) = <<s[i] % G, s[i]>>
(* multiplication by A is a permutation of 0..N-1 when gcd(A, N) = 1 *)
RECURSIVE Gcd(_, _)
Gcd(a, b) == IF b = 0 THEN a ELSE Gcd(b, a % b)
ASSUME \A N \in 1..40, A \in 1..12 : Gcd(A, N) = 1 => {(v * A) % N : v \in 1..N} = 0..(N - 1)
=============================================================================
