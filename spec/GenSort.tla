------------------------------- MODULE GenSort -------------------------------
(* Generator for C08: ORDER BY (all direction / null-placement combinations,
   one and two keys, expression keys, text keys) and every LIMIT/OFFSET around
   0, the batch size and the table size, with and without ORDER BY.           *)
EXTENDS Gen

CONSTANTS Lims, Offs

A == Scan("A")
S == Scan("S")
Dirs == {FALSE, TRUE}
NFs  == {"default", "first", "last"}

Keys1 == { [n |-> <<"k", i, d, nf>>, ks |-> <<SortK(Col(i), d, nf)>>] : i \in 1..2, d \in Dirs, nf \in NFs }
Keys2 == { [n |-> <<"kk", d1, d2, nf>>, ks |-> <<SortK(Col(1), d1, nf), SortK(Col(2), d2, "default")>>]
           : d1 \in Dirs, d2 \in Dirs, nf \in NFs }
KeysE == { [n |-> <<"expr", d>>, ks |-> <<SortK(Arith("mul", Col(1), Col(2)), d, "default"), SortK(Col(1), FALSE, "default")>>] : d \in Dirs }
         \cup { [n |-> <<"boolkey", d>>, ks |-> <<SortK(CmpE("ge", Col(1), LitI(1)), d, "default")>>] : d \in Dirs }
KeysT == { [n |-> <<"text", d, nf>>, ks |-> <<SortK(Col(2), d, nf)>>] : d \in Dirs, nf \in NFs }
(* an integer and a text key together, every direction pair, either order: rows tie on the first key, the text key decides
   (its comparison goes through an encoded prefix and, for long or prefix-equal values, the full value) *)
KeysIT == { [n |-> <<"int_text", d1, d2>>, ks |-> <<SortK(Col(1), d1, "default"), SortK(Col(2), d2, "default")>>] : d1 \in Dirs, d2 \in Dirs }
     \cup { [n |-> <<"text_int", d1, d2>>, ks |-> <<SortK(Col(2), d1, "default"), SortK(Col(1), d2, "default")>>] : d1 \in Dirs, d2 \in Dirs }

Sorts == { [tag |-> <<"sort", "A">> \o <<ToString(k.n)>>, q |-> SortQ(A, k.ks)] : k \in Keys1 \cup Keys2 \cup KeysE }
   \cup  { [tag |-> <<"sort", "S">> \o <<ToString(k.n)>>, q |-> SortQ(S, k.ks)] : k \in KeysT \cup KeysIT }
   \cup  { [tag |-> <<"sort_agg", "A", "sum">>, q |-> SortQ(AggQ(A, <<Col(1)>>, <<AggF("sum", Col(2))>>), <<SortK(Col(2), d, nf)>>)] : d \in Dirs, nf \in NFs }
   \cup  { [tag |-> <<"sort_join", "A", "left">>,
            q |-> SortQ(Join("left", A, Scan("B"), Eq(Col(1), Col(3)), 2, 2), <<SortK(Col(3), d, nf), SortK(Col(1), FALSE, "default")>>)] : d \in Dirs, nf \in NFs }

TopN == { [tag |-> <<"topn", "A", ToString(<<n, o, d>>)>>, q |-> LimitQ(SortQ(A, <<SortK(Col(1), d, "default")>>), n, o)]
            : n \in Lims, o \in Offs, d \in Dirs }
   \cup { [tag |-> <<"topn2", "A", ToString(<<n, o>>)>>,
           q |-> LimitQ(SortQ(A, <<SortK(Col(2), TRUE, "first"), SortK(Col(1), FALSE, "last")>>), n, o)] : n \in Lims, o \in Offs }
   \cup { [tag |-> <<"topn_text", "S", ToString(<<n, o>>)>>, q |-> LimitQ(SortQ(S, <<SortK(Col(2), FALSE, "default")>>), n, o)] : n \in Lims, o \in Offs }
   \cup { [tag |-> <<"topn_text2", "S", ToString(<<n, o, d>>)>>,
           q |-> LimitQ(SortQ(S, <<SortK(Col(2), d, "default"), SortK(Col(1), ~d, "default")>>), n, o)] : n \in Lims, o \in Offs, d \in Dirs }
(* the same slice with the sort hidden in a subquery so that no limit hint can reach it *)
   \cup { [tag |-> <<"topn_nohint", "A", ToString(<<n, o>>)>>,
           q |-> LimitQ(SortQ(Filter(A, True), <<SortK(Col(1), FALSE, "default"), SortK(Col(2), FALSE, "default")>>), n, o)] : n \in Lims, o \in Offs }
PlainLimit == { [tag |-> <<"limit", "A", ToString(<<n, o>>)>>, q |-> LimitQ(A, n, o)] : n \in Lims, o \in Offs }
   \cup { [tag |-> <<"limit_filter", "A", ToString(<<n, o>>)>>, q |-> LimitQ(Filter(A, NotNullE(Col(1))), n, o)] : n \in Lims, o \in Offs }
   \cup { [tag |-> <<"limit_union", "A", ToString(<<n, o>>)>>, q |-> LimitQ(UnionQ(TRUE, A, Scan("B")), n, o)] : n \in Lims, o \in Offs }
   \cup { [tag |-> <<"limit_agg", "A", ToString(<<n, o>>)>>, q |-> LimitQ(AggQ(A, <<Col(1)>>, <<CountStar>>), n, o)] : n \in Lims, o \in Offs }

Queries == Sorts \cup TopN \cup PlainLimit

VARIABLE c
Init == c \in Queries
Next == UNCHANGED c
Emit == PrintT(ToJson(c))
=============================================================================
