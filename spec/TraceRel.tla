------------------------------ MODULE TraceRel ------------------------------
(* Verdict-style trace validation for the relational families (C01-C03,
   C06-C09): one independent (query, database, observation) case per line.
   Every line is judged; a mismatch is reported and the trace continues, so
   known findings never mask new ones.                                       *)
EXTENDS Judge, Json, IOUtils

Rec == ndJsonDeserialize(IOEnv.TRACE)

VARIABLE l

DbOf(r) == r.db

Why(r) ==
  LET o == r.obs IN
  IF o.outcome = "rows" THEN
       IF ~RowsOK(r.q, DbOf(r), o.rows) THEN "rows"
       ELSE IF o.cls # ClassQ(r.q, r.dbc, <<>>) THEN "class"
       ELSE IF ~TypesAgree(o) THEN "types"
       ELSE "ok"
  ELSE IF o.outcome = "unsupported" THEN "ok"
  ELSE IF o.outcome = "error" /\ r.admit_error THEN "ok"
  ELSE "outcome"

Report(r, why) ==
  PrintT(ToJson([mismatch |-> r.id, why |-> why, mode |-> Mode(r.q),
                 exp |-> IF why = "class" THEN <<ClassQ(r.q, r.dbc, <<>>)>> ELSE Expected(r.q, DbOf(r))]))

TInit == l = 1
TNext == /\ l <= Len(Rec)
         /\ l' = l + 1
         /\ LET why == Why(Rec[l]) IN IF why = "ok" THEN TRUE ELSE Report(Rec[l], why)
TSpec == TInit /\ [][TNext]_l

(* every line was judged *)
Accepted == TLCGet("stats").diameter - 1 = Len(Rec)
=============================================================================
