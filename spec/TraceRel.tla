------------------------------ MODULE TraceRel ------------------------------
(* Verdict-style trace validation for the relational families (C01-C03,
   C06-C09): one independent (query, database, observation) case per line.
   Every line is judged; a mismatch is reported and the trace continues, so
   known findings never mask new ones.                                       *)
EXTENDS Judge, Json, IOUtils

Rec == ndJsonDeserialize(IOEnv.TRACE)

VARIABLE l

DbOf(r) == r.db

(* Pair lines (C02, C03): the same statement under two configurations. Both
   observations are judged against the reference individually (single lines);
   the pair line states the property literally: same rows (as a bag; the
   sequence is checked against the keys on each side), same column names and
   types, same outcome class. The only admitted difference is an evaluation
   error on one side when the case declares it admissible.                   *)
PairWhy(r) ==
  LET a == r.a  b == r.b IN
  IF a.outcome = "rows" /\ b.outcome = "rows" THEN
       IF a.schema # b.schema \/ a.names # b.names THEN "pair-schema"
       ELSE IF Mode(r.q) \in {"bag", "sorted"} /\ ~BagEq(a.rows, b.rows) THEN "pair-rows"
       ELSE "ok"
  ELSE IF a.outcome = b.outcome /\ a.outcome \in {"unsupported", "error"} THEN "ok"
  ELSE IF r.admit_error /\ {a.outcome, b.outcome} = {"rows", "error"} THEN "ok"
  ELSE "pair-outcome"

Why(r) ==
  IF "a" \in DOMAIN r THEN PairWhy(r) ELSE
  LET o == r.obs IN
  IF o.outcome = "rows" THEN
       IF ~RowsOK(r.q, DbOf(r), o.rows) THEN "rows"
       ELSE IF o.cls # ClassQ(r.q, r.dbc, <<>>) THEN "class"
       ELSE IF ~TypesAgree(o) THEN "types"
       ELSE "ok"
  ELSE IF o.outcome = "unsupported" THEN "ok"
  ELSE IF o.outcome = "error" /\ r.admit_error THEN "ok"
  ELSE "outcome"

(* Known-defect semantics: when a line carries an alternative term `alt` (the query rewritten to the
   semantics of a recorded known finding), report whether the observation is exactly what that
   semantics yields, so that the finding's signature is precise and any other deviation of the same
   query is still a violation. *)
AltOK(r) == IF "a" \in DOMAIN r THEN FALSE
            ELSE IF r.alt.k = "none" \/ r.obs.outcome # "rows" THEN FALSE
            ELSE RowsOK(r.alt, DbOf(r), r.obs.rows)

Report(r, why) ==
  PrintT(ToJson([mismatch |-> r.id, why |-> why, mode |-> Mode(r.q), altok |-> AltOK(r),
                 exp |-> IF why = "class" THEN <<ClassQ(r.q, r.dbc, <<>>)>>
                         ELSE IF "a" \in DOMAIN r THEN <<>>
                         ELSE Expected(r.q, DbOf(r))]))

TInit == l = 1
TNext == /\ l <= Len(Rec)
         /\ l' = l + 1
         /\ LET why == Why(Rec[l]) IN IF why = "ok" THEN TRUE ELSE Report(Rec[l], why)
TSpec == TInit /\ [][TNext]_l

(* every line was judged *)
Accepted == TLCGet("stats").diameter - 1 = Len(Rec)
=============================================================================
