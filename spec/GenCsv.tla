------------------------------- MODULE GenCsv -------------------------------
(* Generator for C17: abstract CSV files built row by row. A state is a file:
   dialect x header x line ending x trailing newline x column classes x rows of
   vocabulary tokens (empty, plain, needing quotes because of an embedded
   delimiter / quote / newline, multi-byte). Emitted by sampling the states TLC
   generates (BFS over small files, -simulate for larger ones).               *)
EXTENDS Integers, Sequences, TLC, Json

CONSTANTS MaxRows, SampleK

Delims == {",", "|", ";", "\t"}
Quotes == {"\"", "'"}
Vocab == [ b |-> {"true", "false", ""},
           i |-> {"0", "7", "-12", "123456", ""},
           f |-> {"1.5", "-0.25", "3", ""},
           t |-> {"abc", "é x", "a,b", "x|y;z", "say \"hi\"", "it's", "line\nbreak", "tab\there", "true", "0", "𝄞", "xxxxxxxxxxxxxxxxxxxx", ""} ]
Classes == {"b", "i", "f", "t"}

VARIABLES file
Init == \E d \in Delims, q \in Quotes, h \in BOOLEAN, eol \in {"lf", "crlf"}, tr \in BOOLEAN, n \in 1..3 :
          \E cls \in [1..n -> Classes] :
             file = [delim |-> d, quote |-> q, header |-> h, eol |-> eol, trail |-> tr, cls |-> cls, rows |-> <<>>,
                     allq |-> FALSE]
Next == /\ Len(file.rows) < MaxRows
        /\ \E row \in [1..Len(file.cls) -> UNION {Vocab[c] : c \in Classes}] :
              /\ \A j \in 1..Len(file.cls) : row[j] \in Vocab[file.cls[j]]
              /\ \E aq \in BOOLEAN : file' = [file EXCEPT !.rows = Append(@, row), !.allq = aq]
Spec == Init /\ [][Next]_file
Emit == (SampleK = 1 \/ RandomElement(1..SampleK) = 1) => PrintT(ToJson(file))
=============================================================================
