------------------------------ MODULE TracePrims ------------------------------
(* Generic discipline of the two primitives every barrier in the engine is built
   from (PartitionWakers, DelayedPartitionCount), validated on hook events of ALL
   operators (joins, aggregates, sort merge queue, materialize, create-table-as):
     - a count is set once, then decremented by exactly one per event, never below zero;
     - wake_all reports exactly the partitions stored since the last wake_all
       (nobody is forgotten inside the primitive);
     - when a statement completed successfully, no partition is still parked in
       any waker set whose owner's counts all reached zero... is NOT required
       (LIMIT may end a query early); what IS required: a partition stored in a
       set is never stored there again before being woken (a task parks once per
       wake).
   Lines: [ev, o (object number), ps, n, failed (first line of a statement: "Begin")] *)
EXTENDS Naturals, Sequences, FiniteSets, TLC, Json, IOUtils
Rec == ndJsonDeserialize(IOEnv.TRACE)
NO == IF Len(Rec) = 0 THEN 0 ELSE Rec[1].no
VARIABLES l, cnt, parked
vars == <<l, cnt, parked>>
SetOf(s) == {s[i] : i \in DOMAIN s}
TInit == l = 1 /\ cnt = [o \in 1..NO |-> 999] /\ parked = [o \in 1..NO |-> {}]
Bad(e, what) == PrintT(ToJson([mismatch |-> l, ev |-> e.ev, what |-> what, o |-> e.o]))
Step ==
  /\ l <= Len(Rec) /\ l' = l + 1
  /\ LET e == Rec[l] IN
     CASE e.ev = "Begin" -> cnt' = [o \in 1..NO |-> 999] /\ parked' = [o \in 1..NO |-> {}]
       (* a set / init event starts a new incarnation of the object at this address *)
       [] e.ev = "CountSet" -> cnt' = [cnt EXCEPT ![e.o] = e.n] /\ UNCHANGED parked
       [] e.ev = "WakersInit" -> parked' = [parked EXCEPT ![e.o] = {}] /\ UNCHANGED cnt
       [] e.ev = "CountDec" -> /\ (IF cnt[e.o] # 999 /\ cnt[e.o] >= 1 /\ e.n = cnt[e.o] - 1 THEN TRUE ELSE Bad(e, "count-step"))
                               /\ cnt' = [cnt EXCEPT ![e.o] = e.n] /\ UNCHANGED parked
       [] e.ev = "Store" -> /\ parked' = [parked EXCEPT ![e.o] = @ \cup SetOf(e.ps)] /\ UNCHANGED cnt
       [] e.ev \in {"WakeAll"} -> /\ (IF SetOf(e.ps) = parked[e.o] THEN TRUE ELSE Bad(e, "woken-set-differs-from-stored"))
                                  /\ parked' = [parked EXCEPT ![e.o] = {}] /\ UNCHANGED cnt
       [] e.ev = "Wake" -> /\ (IF SetOf(e.ps) \subseteq parked[e.o] THEN TRUE ELSE Bad(e, "woke-unstored"))
                           /\ parked' = [parked EXCEPT ![e.o] = @ \ SetOf(e.ps)] /\ UNCHANGED cnt
       [] OTHER -> UNCHANGED <<cnt, parked>>
TSpec == TInit /\ [][Step]_vars
Accepted == TLCGet("stats").diameter - 1 = Len(Rec)
=============================================================================
