------------------------------ MODULE TraceTask ------------------------------
(* Trace validation of the real thread pool against TaskSched.tla's critical
   sections. Events are emitted by cfg(glaredb_verif) hooks in task.rs /
   handle.rs while `sched_state` (resp. the pipeline mutex) is held and are
   totally ordered by a sequence number drawn under the event buffer's lock.

   Each line: [ev, t, branch, st = <<running, pending, completed, canceled>> (0/1), result]
   The spec keeps the model's ScheduleState per task, applies the action named
   by the event and compares the outcome with what the code logged. After a
   mismatch it reports and adopts the logged state (resynchronises) so the rest
   of the trace is still examined.                                            *)
EXTENDS Naturals, Sequences, TLC, Json, IOUtils

Rec == ndJsonDeserialize(IOEnv.TRACE)
NT  == IF Len(Rec) = 0 THEN 0 ELSE Rec[1].ntmax   \* every statement starts with a Header line (nt tasks)

VARIABLES l, st, inExec, lastRes, ended, failed
vars == <<l, st, inExec, lastRes, ended, failed>>

B(x) == IF x THEN 1 ELSE 0
S0 == <<0, 0, 0, 0>>

TInit == /\ l = 1 /\ failed = {}
         /\ st = [t \in 1..NT |-> S0]
         /\ inExec = [t \in 1..NT |-> FALSE]
         /\ lastRes = [t \in 1..NT |-> "none"]
         /\ ended = [t \in 1..NT |-> FALSE]       \* the task returned Ready(Ok)

(* model of TaskState::schedule on state s: <<branch, post-state>> *)
SchedModel(s) ==
  IF s[3] = 1 THEN <<"completed", s>>
  ELSE IF s[4] = 1 THEN <<"canceled", s>>
  ELSE IF s[1] = 1 THEN <<"pending", <<1, 1, s[3], s[4]>> >>
  ELSE <<"spawn", <<1, s[2], s[3], s[4]>> >>

(* model of the loop tail on state s after execute() returned r *)
PostModel(s, r) ==
  LET c == B(r = "ok") IN
  IF s[2] = 1 THEN IF c = 1 THEN <<"pending_completed", <<s[1], 0, c, s[4]>> >>
                             ELSE <<"again", <<s[1], 0, c, s[4]>> >>
  ELSE <<"idle", <<0, 0, c, s[4]>> >>

Mismatch(e, what, exp) ==
  PrintT(ToJson([mismatch |-> l, ev |-> e.ev, t |-> e.t, what |-> what, expected |-> exp, logged |-> e.st]))

Quiescent ==
  \A t \in 1..NT :
     IF (st[t][3] = 1 \/ st[t][4] = 1 \/ t \in failed) \/ (st[t][1] = 0 /\ st[t][2] = 0 /\ ~inExec[t]) THEN TRUE
     ELSE PrintT(ToJson([mismatch |-> l, ev |-> "End", t |-> t, what |-> "not-quiescent",
                         expected |-> <<>>, logged |-> st[t]]))

Step ==
  /\ l <= Len(Rec)
  /\ l' = l + 1
  /\ LET e == Rec[l] t == e.t IN
     IF e.ev = "Header" THEN
        /\ Quiescent
        /\ st' = [x \in 1..NT |-> S0] /\ inExec' = [x \in 1..NT |-> FALSE]
        /\ lastRes' = [x \in 1..NT |-> "none"] /\ ended' = [x \in 1..NT |-> FALSE]
        /\ failed' = {e.failed[i] : i \in DOMAIN e.failed}
     ELSE
     /\ UNCHANGED failed
     /\ CASE e.ev = "TaskSchedule" ->
            LET m == SchedModel(st[t]) IN
            /\ IF m[1] = e.branch /\ m[2] = e.st THEN TRUE ELSE Mismatch(e, "schedule", m)
            /\ st' = [st EXCEPT ![t] = e.st]
            /\ UNCHANGED <<inExec, lastRes, ended>>
       [] e.ev = "TaskExecBegin" ->
            (* one execution at a time; only a running task executes; never after Ready(Ok) *)
            /\ IF ~inExec[t] /\ st[t][1] = 1 /\ ~ended[t] THEN TRUE
               ELSE Mismatch(e, "exec-begin", <<B(inExec[t]), st[t][1], B(ended[t])>>)
            /\ inExec' = [inExec EXCEPT ![t] = TRUE]
            /\ UNCHANGED <<st, lastRes, ended>>
       [] e.ev = "TaskExecEnd" ->
            /\ IF inExec[t] THEN TRUE ELSE Mismatch(e, "exec-end", <<>>)
            /\ lastRes' = [lastRes EXCEPT ![t] = e.result]
            /\ ended' = [ended EXCEPT ![t] = @ \/ e.result = "ok"]
            /\ UNCHANGED <<st, inExec>>
       [] e.ev = "TaskPost" ->
            LET m == PostModel(st[t], lastRes[t]) IN
            /\ IF inExec[t] /\ m[1] = e.branch /\ m[2] = e.st THEN TRUE ELSE Mismatch(e, "post", m)
            /\ st' = [st EXCEPT ![t] = e.st]
            /\ inExec' = [inExec EXCEPT ![t] = FALSE]
            /\ UNCHANGED <<lastRes, ended>>
       [] e.ev = "TaskCancelMark" ->
            /\ st' = [st EXCEPT ![t] = <<@[1], @[2], @[3], 1>>]
            /\ UNCHANGED <<inExec, lastRes, ended>>
       [] OTHER -> UNCHANGED <<st, inExec, lastRes, ended>>

Final ==
  /\ l = Len(Rec) + 1
  /\ l' = l + 1
  /\ Quiescent
  /\ UNCHANGED <<st, inExec, lastRes, ended, failed>>

TNext == Step \/ Final
TSpec == TInit /\ [][TNext]_vars
Accepted == TLCGet("stats").diameter = Len(Rec) + 2
=============================================================================
