--------------------------- MODULE TraceExecStack ---------------------------
(* Replays what the real ExecutionStack did (the Effects call it made and the
   control flow it returned at every pop_next) against ExecStack.tla: the model
   must make the same call and return the same control flow at every step.
   One behaviour per line: [n, steps = << [call = <<kind, op, poll>>, cf] >>]. *)
EXTENDS ExecStackDefs, TLC, Json, IOUtils

Rec == ndJsonDeserialize(IOEnv.TRACE)
VARIABLE l

RECURSIVE Run(_, _, _, _)
(* returns 0 if the whole behaviour conforms, else the 1-based index of the first deviating step *)
Run(st, obs, i, nops) ==
  IF i > Len(obs) THEN 0
  ELSE LET o == obs[i] IN
    IF st = <<>> THEN (IF o.call[1] = "none" /\ o.cf = "finished" THEN 0 ELSE i)
    ELSE LET ins == st[Len(st)] rest == SubSeq(st, 1, Len(st) - 1) IN
      IF o.call[1] # ins.k \/ o.call[2] # ins.op THEN i
      ELSE LET a == IF ins.k = "exec" THEN AfterExec(ins, rest, o.call[3]) ELSE AfterFin(ins, rest, o.call[3]) IN
           IF a.cf # o.cf THEN i
           ELSE IF a.cf \in {"finished", "error"} THEN (IF i = Len(obs) THEN 0 ELSE i)
           ELSE Run(a.s, obs, i + 1, nops)

TInit == l = 1
TNext == /\ l <= Len(Rec) /\ l' = l + 1
         /\ LET r == Rec[l]
                bad == Run(<< Exec(0, TRUE) >>, r.steps, 1, r.n)
            IN IF bad = 0 /\ Len(r.steps) = r.expect THEN TRUE
               ELSE PrintT(ToJson([mismatch |-> r.id, step |-> bad, steps |-> r.steps]))
TSpec == TInit /\ [][TNext]_l
Accepted == TLCGet("stats").diameter - 1 = Len(Rec)
=============================================================================
