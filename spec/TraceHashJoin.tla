---------------------------- MODULE TraceHashJoin ----------------------------
(* Trace validation of the real hash join operator against the protocol of
   HashJoinOp.tla. Events are emitted under the operator's mutex by the
   primitives themselves (PartitionWakers::{store, wake_all},
   DelayedPartitionCount::{set, dec_by_one}) and by three flag / three
   pass-through hooks in hash_join/mod.rs; the orchestrator projects the global
   sequence per operator instance (by the logged operator address) and resolves
   object addresses to field names using the OpInit event. No state is guessed.

   One critical section produces a short group of events, e.g.
       CountDec(rem_ins, 0) . Flag(scan_ready) . WakeAll(pend_prob, S) . WakeAll(pend_drain, S')
   The spec turns the rest of such a group into an OBLIGATION that the following
   events must discharge in order, so a missing member (a dropped wake_all, a
   flag that is not set) is rejected even when nobody happens to be parked.

   Lines: [ev, lab, ps, n, p, f = <<ins_ready, scan_ready, drain_ready>> (0/1), parts, failed]  *)
EXTENDS Naturals, Sequences, FiniteSets, TLC, Json, IOUtils

Rec == ndJsonDeserialize(IOEnv.TRACE)

VARIABLES l,
          ins_ready, scan_ready, drain_ready,
          rem,        \* [label -> count], labels "rem_ins", "rem_prob"; 99 = not set
          parked,     \* [label -> set of partitions], labels "pend_ins", "pend_prob", "pend_drain"
          oblig,      \* sequence of <<ev, lab>> still owed by the current critical section
          failed      \* the statement ended with an error / cancel: end-of-trace checks are waived
vars == <<l, ins_ready, scan_ready, drain_ready, rem, parked, oblig, failed>>

SetOf(s) == {s[i] : i \in DOMAIN s}
B(x) == IF x THEN 1 ELSE 0
Fresh == /\ ins_ready' = FALSE /\ scan_ready' = FALSE /\ drain_ready' = FALSE
         /\ rem' = [lab \in {"rem_ins", "rem_prob"} |-> 99]
         /\ parked' = [lab \in {"pend_ins", "pend_prob", "pend_drain"} |-> {}]
         /\ oblig' = <<>>

TInit == /\ l = 1 /\ ins_ready = FALSE /\ scan_ready = FALSE /\ drain_ready = FALSE
         /\ rem = [lab \in {"rem_ins", "rem_prob"} |-> 99]
         /\ parked = [lab \in {"pend_ins", "pend_prob", "pend_drain"} |-> {}]
         /\ oblig = <<>> /\ failed = FALSE

Bad(e, what) == PrintT(ToJson([mismatch |-> l, ev |-> e.ev, lab |-> e.lab, what |-> what,
                               model |-> [f |-> <<B(ins_ready), B(scan_ready), B(drain_ready)>>,
                                          rem_ins |-> rem["rem_ins"], rem_prob |-> rem["rem_prob"],
                                          oblig |-> oblig]]))

(* the flag a waker set waits for *)
ReadyFor(lab) == CASE lab = "pend_ins" -> ins_ready
                   [] lab = "pend_prob" -> scan_ready
                   [] lab = "pend_drain" -> scan_ready /\ drain_ready

(* does event e discharge the head of the obligation? *)
Owed(e) == oblig # <<>> /\ Head(oblig) = <<e.ev, e.lab>>
ObligOK(e) == oblig = <<>> \/ Owed(e)
NextOblig(e) == IF Owed(e) THEN Tail(oblig) ELSE <<>>

Step ==
  /\ l <= Len(Rec)
  /\ l' = l + 1
  /\ LET e == Rec[l] IN
     IF e.ev = "OpInit" THEN
        (* a new operator instance; the previous one must have nobody parked unless it failed *)
        /\ IF failed \/ ((\A lab \in DOMAIN parked : parked[lab] = {}) /\ oblig = <<>>) THEN TRUE
           ELSE Bad(e, "previous-operator-left-parked-partitions")
        /\ Fresh /\ failed' = e.failed
     ELSE
     /\ UNCHANGED failed
     /\ IF ObligOK(e) THEN TRUE ELSE Bad(e, "critical-section-incomplete")
     /\ CASE e.ev = "CountSet" ->
               /\ rem' = [rem EXCEPT ![e.lab] = e.n]
               /\ oblig' = NextOblig(e)
               /\ UNCHANGED <<ins_ready, scan_ready, drain_ready, parked>>
          [] e.ev = "CountDec" ->
               /\ IF rem[e.lab] # 99 /\ rem[e.lab] >= 1 /\ e.n = rem[e.lab] - 1 THEN TRUE ELSE Bad(e, "count")
               /\ rem' = [rem EXCEPT ![e.lab] = e.n]
               /\ oblig' = IF e.n # 0 THEN NextOblig(e)
                           ELSE IF e.lab = "rem_ins"
                                THEN << <<"Flag", "scan_ready">>, <<"WakeAll", "pend_prob">>, <<"WakeAll", "pend_drain">> >>
                                ELSE << <<"Flag", "drain_ready">>, <<"WakeAll", "pend_drain">> >>
               /\ UNCHANGED <<ins_ready, scan_ready, drain_ready, parked>>
          [] e.ev = "Flag" ->
               /\ CASE e.lab = "hash_inserts_ready" ->
                         /\ IF ~ins_ready THEN TRUE ELSE Bad(e, "flag-set-twice")
                         /\ ins_ready' = TRUE /\ UNCHANGED <<scan_ready, drain_ready>>
                         /\ oblig' = << <<"WakeAll", "pend_ins">> >>
                    [] e.lab = "scan_ready" ->
                         /\ IF rem["rem_ins"] = 0 /\ ins_ready THEN TRUE ELSE Bad(e, "scan_ready-before-all-inserted")
                         /\ scan_ready' = TRUE /\ UNCHANGED <<ins_ready, drain_ready>>
                         /\ oblig' = NextOblig(e)
                    [] e.lab = "drain_ready" ->
                         /\ IF rem["rem_prob"] = 0 THEN TRUE ELSE Bad(e, "drain_ready-before-all-probed")
                         /\ drain_ready' = TRUE /\ UNCHANGED <<ins_ready, scan_ready>>
                         /\ oblig' = NextOblig(e)
               /\ UNCHANGED <<rem, parked>>
          [] e.ev = "WakeAll" ->
               (* wakes exactly the partitions the model has parked there *)
               /\ IF SetOf(e.ps) = parked[e.lab] THEN TRUE ELSE Bad(e, "woken-set")
               /\ parked' = [parked EXCEPT ![e.lab] = {}]
               /\ oblig' = NextOblig(e)
               /\ UNCHANGED <<ins_ready, scan_ready, drain_ready, rem>>
          [] e.ev = "Store" ->
               (* parking is legal only while the awaited flag is still unset (re-check under the lock) *)
               /\ IF ~ReadyFor(e.lab) THEN TRUE ELSE Bad(e, "parked-on-set-flag")
               /\ parked' = [parked EXCEPT ![e.lab] = @ \cup SetOf(e.ps)]
               /\ oblig' = NextOblig(e)
               /\ UNCHANGED <<ins_ready, scan_ready, drain_ready, rem>>
          [] e.ev = "Pass" ->
               /\ IF e.f = <<B(ins_ready), B(scan_ready), B(drain_ready)>> THEN TRUE ELSE Bad(e, "flags-differ-from-model")
               /\ IF CASE e.lab = "insert" -> ins_ready
                       [] e.lab = "scan" -> scan_ready
                       [] e.lab = "drain" -> scan_ready /\ drain_ready
                  THEN TRUE ELSE Bad(e, "passed-barrier-too-early")
               /\ oblig' = NextOblig(e)
               /\ UNCHANGED <<ins_ready, scan_ready, drain_ready, rem, parked>>
          [] OTHER -> UNCHANGED <<ins_ready, scan_ready, drain_ready, rem, parked, oblig>>

Final ==
  /\ l = Len(Rec) + 1
  /\ l' = l + 1
  /\ IF failed \/ ((\A lab \in DOMAIN parked : parked[lab] = {}) /\ oblig = <<>>) THEN TRUE
     ELSE PrintT(ToJson([mismatch |-> l, ev |-> "End", lab |-> "", what |-> "partitions-left-parked",
                         model |-> [f |-> <<B(ins_ready), B(scan_ready), B(drain_ready)>>,
                                    rem_ins |-> rem["rem_ins"], rem_prob |-> rem["rem_prob"], oblig |-> oblig]]))
  /\ UNCHANGED <<ins_ready, scan_ready, drain_ready, rem, parked, oblig, failed>>

TNext == Step \/ Final
TSpec == TInit /\ [][TNext]_vars
Accepted == TLCGet("stats").diameter = Len(Rec) + 2
=============================================================================
