------------------------------ MODULE HashJoinOp ------------------------------
(* The cross-partition protocol of the hash join operator
   (execution/operators/hash_join/mod.rs), one action per critical section
   under `shared.lock()`, with the Rust field names.

   Build partitions collect, the last one initialises the directory, all insert
   hashes in parallel; probe partitions wait for `scan_ready`, probe, and - for
   join types that emit unmatched build rows - wait until ALL probers are done
   before draining.

   Abstract data: each build partition holds a set of build-row ids, each probe
   partition a set of probe-row ids that match some build rows; draining emits
   the build rows nobody matched. `OutputIsJoin` states that at termination the
   emitted pairs and drained rows are exactly what the join defines.           *)
EXTENDS Naturals, FiniteSets, TLC

CONSTANTS P,            \* number of partitions (same on both sides)
          NeedsDrain,   \* join type emits unmatched build rows (LEFT, SEMI, ANTI, MARK, FULL)
          BuildRows     \* set of build row ids

Parts == 0..(P - 1)

VARIABLES
  Match,    \* [probe partition -> set of build rows its input matches]; chosen initially, never changes
  (* SharedState *)
  hash_inserts_ready, scan_ready, drain_ready,
  remaining_hash_inserters, remaining_probers,
  pending_hash_inserters, pending_probers, pending_drainers,   \* sets of parked partitions
  (* table-internal atomic used by finish_build *)
  remaining_builders,
  (* per partition program counters *)
  bpc,      \* build side:  "collect" | "initdir" | "wait_ins" | "check_ins" | "inserting" | "done"
  ppc,      \* probe side:  "check_scan" | "wait_scan" | "probing" | "check_drain" | "wait_drain" | "draining" | "done"
  runnableB, runnableP,     \* who has been woken / is schedulable
  (* abstract data *)
  inserted,   \* build partitions whose hashes are in the directory
  matched,    \* build rows marked as matched by probers
  drained,    \* build rows emitted by drainers as unmatched (a bag: function row -> count)
  dirOwner    \* partition currently holding exclusive access to the directory (or P = nobody)

vars == <<Match, hash_inserts_ready, scan_ready, drain_ready, remaining_hash_inserters, remaining_probers,
          pending_hash_inserters, pending_probers, pending_drainers, remaining_builders,
          bpc, ppc, runnableB, runnableP, inserted, matched, drained, dirOwner>>

Init ==
  /\ Match \in [Parts -> SUBSET BuildRows]
  /\ hash_inserts_ready = FALSE /\ scan_ready = FALSE /\ drain_ready = FALSE
  /\ remaining_hash_inserters = P /\ remaining_probers = P
  /\ pending_hash_inserters = {} /\ pending_probers = {} /\ pending_drainers = {}
  /\ remaining_builders = P
  /\ bpc = [p \in Parts |-> "collect"] /\ ppc = [p \in Parts |-> "check_scan"]
  /\ runnableB = Parts /\ runnableP = Parts
  /\ inserted = {} /\ matched = {} /\ drained = [r \in BuildRows |-> 0]
  /\ dirOwner = P

(* --------------------------- build side --------------------------- *)
(* finish_build: atomic fetch_sub; the last one becomes the directory initialiser *)
FinishBuild(p) ==
  /\ p \in runnableB /\ bpc[p] = "collect"
  /\ remaining_builders' = remaining_builders - 1
  /\ IF remaining_builders = 1
     THEN bpc' = [bpc EXCEPT ![p] = "initdir"] /\ dirOwner' = p
     ELSE bpc' = [bpc EXCEPT ![p] = "check_ins"] /\ UNCHANGED dirOwner
  /\ UNCHANGED <<hash_inserts_ready, scan_ready, drain_ready, remaining_hash_inserters, remaining_probers,
                 pending_hash_inserters, pending_probers, pending_drainers, ppc, runnableB, runnableP,
                 inserted, matched, drained>>

(* cs: last builder: hash_inserts_ready := true; pending_hash_inserters.wake_all() *)
LastBuilderReady(p) ==
  /\ p \in runnableB /\ bpc[p] = "initdir"
  /\ hash_inserts_ready' = TRUE
  /\ runnableB' = runnableB \cup pending_hash_inserters
  /\ pending_hash_inserters' = {}
  /\ dirOwner' = P
  /\ bpc' = [bpc EXCEPT ![p] = "inserting"]
  /\ UNCHANGED <<scan_ready, drain_ready, remaining_hash_inserters, remaining_probers, pending_probers,
                 pending_drainers, remaining_builders, ppc, runnableP, inserted, matched, drained>>

(* cs: a builder checks hash_inserts_ready; parks (Pending) or passes *)
CheckInsert(p) ==
  /\ p \in runnableB /\ bpc[p] = "check_ins"
  /\ IF hash_inserts_ready
     THEN /\ bpc' = [bpc EXCEPT ![p] = "inserting"]
          /\ UNCHANGED <<pending_hash_inserters, runnableB>>
     ELSE /\ pending_hash_inserters' = pending_hash_inserters \cup {p}
          /\ runnableB' = runnableB \ {p}               \* returns Pending; runs again only when woken
          /\ UNCHANGED bpc
  /\ UNCHANGED <<hash_inserts_ready, scan_ready, drain_ready, remaining_hash_inserters, remaining_probers,
                 pending_probers, pending_drainers, remaining_builders, ppc, runnableP, inserted,
                 matched, drained, dirOwner>>

(* process_hashes outside the lock, then cs: remaining_hash_inserters -= 1; last one opens the scan *)
InsertDone(p) ==
  /\ p \in runnableB /\ bpc[p] = "inserting"
  /\ inserted' = inserted \cup {p}
  /\ remaining_hash_inserters' = remaining_hash_inserters - 1
  /\ IF remaining_hash_inserters = 1
     THEN /\ scan_ready' = TRUE
          /\ runnableP' = runnableP \cup pending_probers \cup pending_drainers
          /\ pending_probers' = {} /\ pending_drainers' = {}
     ELSE UNCHANGED <<scan_ready, runnableP, pending_probers, pending_drainers>>
  /\ bpc' = [bpc EXCEPT ![p] = "done"]
  /\ UNCHANGED <<hash_inserts_ready, drain_ready, remaining_probers, pending_hash_inserters,
                 remaining_builders, ppc, runnableB, matched, drained, dirOwner>>

(* --------------------------- probe side --------------------------- *)
CheckScan(p) ==
  /\ p \in runnableP /\ ppc[p] = "check_scan"
  /\ IF scan_ready
     THEN ppc' = [ppc EXCEPT ![p] = "probing"] /\ UNCHANGED <<pending_probers, runnableP>>
     ELSE /\ pending_probers' = pending_probers \cup {p}
          /\ runnableP' = runnableP \ {p}
          /\ UNCHANGED ppc
  /\ UNCHANGED <<hash_inserts_ready, scan_ready, drain_ready, remaining_hash_inserters, remaining_probers,
                 pending_hash_inserters, pending_drainers, remaining_builders, bpc, runnableB, inserted,
                 matched, drained, dirOwner>>

(* probe all input (marks matched build rows), then finalize:
   cs: remaining_probers -= 1; last one sets drain_ready and wakes the drainers *)
ProbeFinalize(p) ==
  /\ p \in runnableP /\ ppc[p] = "probing"
  /\ matched' = matched \cup Match[p]
  /\ IF NeedsDrain
     THEN /\ remaining_probers' = remaining_probers - 1
          /\ IF remaining_probers = 1
             THEN /\ drain_ready' = TRUE
                  /\ runnableP' = runnableP \cup pending_drainers
                  /\ pending_drainers' = {}
             ELSE UNCHANGED <<drain_ready, runnableP, pending_drainers>>
          /\ ppc' = [ppc EXCEPT ![p] = "check_drain"]
     ELSE /\ ppc' = [ppc EXCEPT ![p] = "done"]
          /\ UNCHANGED <<remaining_probers, drain_ready, runnableP, pending_drainers>>
  /\ UNCHANGED <<hash_inserts_ready, scan_ready, remaining_hash_inserters, pending_hash_inserters,
                 pending_probers, remaining_builders, bpc, runnableB, inserted, drained, dirOwner>>

(* a probe partition whose input is empty is finalized without ever checking scan_ready *)
EmptyProbeFinalize(p) ==
  /\ p \in runnableP /\ ppc[p] = "check_scan" /\ Match[p] = {}
  /\ IF NeedsDrain
     THEN /\ remaining_probers' = remaining_probers - 1
          /\ IF remaining_probers = 1
             THEN /\ drain_ready' = TRUE
                  /\ runnableP' = runnableP \cup pending_drainers
                  /\ pending_drainers' = {}
             ELSE UNCHANGED <<drain_ready, runnableP, pending_drainers>>
          /\ ppc' = [ppc EXCEPT ![p] = "check_drain"]
     ELSE /\ ppc' = [ppc EXCEPT ![p] = "done"]
          /\ UNCHANGED <<remaining_probers, drain_ready, runnableP, pending_drainers>>
  /\ UNCHANGED <<hash_inserts_ready, scan_ready, remaining_hash_inserters, pending_hash_inserters,
                 pending_probers, remaining_builders, bpc, runnableB, inserted, matched, drained, dirOwner>>

CheckDrain(p) ==
  /\ p \in runnableP /\ ppc[p] = "check_drain"
  /\ IF drain_ready /\ scan_ready
     THEN ppc' = [ppc EXCEPT ![p] = "draining"] /\ UNCHANGED <<pending_drainers, runnableP>>
     ELSE /\ pending_drainers' = pending_drainers \cup {p}
          /\ runnableP' = runnableP \ {p}
          /\ UNCHANGED ppc
  /\ UNCHANGED <<hash_inserts_ready, scan_ready, drain_ready, remaining_hash_inserters, remaining_probers,
                 pending_hash_inserters, pending_probers, remaining_builders, bpc, runnableB, inserted,
                 matched, drained, dirOwner>>

(* drain: partition p emits its share (row id mod P = p) of the build rows nobody matched *)
Drain(p) ==
  /\ p \in runnableP /\ ppc[p] = "draining"
  /\ drained' = [r \in BuildRows |-> IF r % P = p /\ r \notin matched THEN drained[r] + 1 ELSE drained[r]]
  /\ ppc' = [ppc EXCEPT ![p] = "done"]
  /\ UNCHANGED <<hash_inserts_ready, scan_ready, drain_ready, remaining_hash_inserters, remaining_probers,
                 pending_hash_inserters, pending_probers, pending_drainers, remaining_builders, bpc,
                 runnableB, runnableP, inserted, matched, dirOwner>>

Step(p) == FinishBuild(p) \/ LastBuilderReady(p) \/ CheckInsert(p) \/ InsertDone(p)
                         \/ CheckScan(p) \/ ProbeFinalize(p) \/ EmptyProbeFinalize(p) \/ CheckDrain(p) \/ Drain(p)

Next == (\E p \in Parts : Step(p)) /\ UNCHANGED Match

Spec == Init /\ [][Next]_vars /\ WF_vars(Next)

(* ------------------------------ properties ------------------------------ *)
AllDone == \A p \in Parts : bpc[p] = "done" /\ ppc[p] = "done"

(* no lost wake-up: if nobody can run, everything has finished *)
NoLostWake == (~ENABLED Next) => AllDone

(* nobody stays parked on a flag that is already set *)
NoParkedOnSetFlag ==
  /\ hash_inserts_ready => pending_hash_inserters = {}
  /\ scan_ready => pending_probers = {}
  /\ (scan_ready /\ drain_ready) => pending_drainers = {}

(* phase exclusivity (what the unsafe code relies on, C16):
   - the directory is initialised by exactly one partition while nobody inserts, probes or drains
   - probing starts only after every build partition inserted its hashes
   - draining starts only after every prober has finished                      *)
DirectoryExclusive ==
  dirOwner # P => \A p \in Parts : bpc[p] \notin {"inserting"} /\ ppc[p] \notin {"probing", "draining"}
ProbeAfterAllInserted ==
  \A p \in Parts : ppc[p] \in {"probing", "draining"} => inserted = Parts
DrainAfterAllProbed ==
  \A p \in Parts : ppc[p] = "draining" => \A r \in Parts : ppc[r] \in {"check_drain", "wait_drain", "draining", "done"}

CountsConsistent ==
  /\ remaining_hash_inserters = P - Cardinality(inserted)
  /\ remaining_probers \in 0..P

(* result: every unmatched build row is emitted exactly once, matched rows never *)
OutputIsJoin ==
  (AllDone /\ NeedsDrain) =>
     \A r \in BuildRows : drained[r] = (IF r \in UNION {Match[p] : p \in Parts} THEN 0 ELSE 1)

Termination == <>AllDone
=============================================================================
