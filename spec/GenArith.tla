------------------------------- MODULE GenArith -------------------------------
(* Generator for C12 (integers): the operand sets per SQL integer type.
   8-bit types: every value (pairs are therefore exhaustive); wider types: a
   boundary set - limits and their neighbours, zero and small values, +-2^(w/2)
   and neighbours (products cross the limit there), powers of ten.            *)
EXTENDS IntArith, Json, TLC, FiniteSets, SequencesExt

Types == { [n |-> "TINYINT", w |-> 8, s |-> TRUE],   [n |-> "UTINYINT", w |-> 8, s |-> FALSE],
           [n |-> "SMALLINT", w |-> 16, s |-> TRUE], [n |-> "USMALLINT", w |-> 16, s |-> FALSE],
           [n |-> "INT", w |-> 32, s |-> TRUE],      [n |-> "UINT", w |-> 32, s |-> FALSE],
           [n |-> "BIGINT", w |-> 64, s |-> TRUE],   [n |-> "UBIGINT", w |-> 64, s |-> FALSE] }

Small(ty) == IF ty.s THEN {FromInt(i) : i \in -128..127} ELSE {FromInt(i) : i \in 0..255}

Bnd(ty) ==
  LET mn == MinOf(ty) mx == MaxOf(ty) h == Pow2(ty.w \div 2)
      two == FromInt(2) three == FromInt(3)
      cand == { mn, Add(mn, One), Add(mn, two), Neg(three), Neg(two), Neg(One), Zero, One, two, three, FromInt(7), FromInt(10),
                Sub(mx, two), Sub(mx, One), mx, h, Sub(h, One), Add(h, One), Neg(h), Neg(Add(h, One)), Neg(Sub(h, One)),
                Pow10(ty.w \div 4), Neg(Pow10(ty.w \div 4)), Pow10((ty.w * 3) \div 10),
                Mul(three, Pow2(ty.w - 3)), Neg(Mul(three, Pow2(ty.w - 3))) }
  IN { v \in cand : InRange(ty, v) }

VARIABLE c
Init == \E ty \in Types : c = [ty |-> ty, vals |-> SetToSeq(IF ty.w = 8 THEN Small(ty) ELSE Bnd(ty))]
Next == UNCHANGED c
Emit == PrintT(ToJson(c))
=============================================================================
