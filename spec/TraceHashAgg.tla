----------------------------- MODULE TraceHashAgg -----------------------------
(* Trace validation of the real hash aggregate operator against the protocol of
   HashAggOp.tla. Events are emitted under the operator's mutex by the primitives
   themselves (PartitionWakers::{store, wake_all}, DelayedPartitionCount::{set,
   dec_by_one}) and by one hook per gate in hash_aggregate/mod.rs that logs the
   four counters when a partition PASSES the gate. The orchestrator projects the
   global event sequence per operator instance (by logged addresses, resolved
   through the OpInit event); no state is guessed.

   The last decrement of a counter must be followed, in the same critical
   section, by wake_all on the waker set that counter gates: an OBLIGATION the
   next event must discharge - so a dropped wake_all is rejected even when nobody
   happens to be parked.

   Lines: [ev, lab, ps, n, p, c = <<rn, rdm, rda, rm>>, parts, distinct, failed]  *)
EXTENDS Naturals, Sequences, FiniteSets, TLC, Json, IOUtils

Rec == ndJsonDeserialize(IOEnv.TRACE)
Counters == {"remaining_normal", "remaining_distinct_mergers", "remaining_distinct_aggregators", "remaining_mergers"}
Wakers == {"pending_distinct_mergers", "pending_distinct_aggregators", "pending_mergers", "pending_drainers"}

VARIABLES l,
          rem,        \* [counter -> value]; 99 = not set
          parked,     \* [waker set -> set of partitions]
          passed,     \* [gate -> set of partitions that passed it]
          distinct, parts,
          oblig,      \* <<>> or <<waker set>>: wake_all owed by the current critical section
          failed      \* the statement ended with an error / cancel: end-of-trace checks are waived
vars == <<l, rem, parked, passed, distinct, parts, oblig, failed>>

SetOf(s) == {s[i] : i \in DOMAIN s}
Gates == {"dmerge", "dagg", "merge", "scan"}
Fresh == /\ rem' = [c \in Counters |-> 99]
         /\ parked' = [w \in Wakers |-> {}]
         /\ passed' = [g \in Gates |-> {}]
         /\ oblig' = <<>>
TInit == /\ l = 1 /\ rem = [c \in Counters |-> 99] /\ parked = [w \in Wakers |-> {}] /\ passed = [g \in Gates |-> {}]
         /\ distinct = FALSE /\ parts = 0 /\ oblig = <<>> /\ failed = FALSE

(* which counter a gate / a waker set waits for, and which waker set the last decrement of a counter must wake *)
GateCounter(g) == CASE g = "dmerge" -> "remaining_normal"
                    [] g = "dagg" -> "remaining_distinct_mergers"
                    [] g = "merge" -> IF distinct THEN "remaining_distinct_aggregators" ELSE "remaining_normal"
                    [] g = "scan" -> "remaining_mergers"
WakerCounter(w) == CASE w = "pending_distinct_mergers" -> "remaining_normal"
                     [] w = "pending_distinct_aggregators" -> "remaining_distinct_mergers"
                     [] w = "pending_mergers" -> IF distinct THEN "remaining_distinct_aggregators" ELSE "remaining_normal"
                     [] w = "pending_drainers" -> "remaining_mergers"
Wakes(c) == CASE c = "remaining_normal" -> IF distinct THEN "pending_distinct_mergers" ELSE "pending_mergers"
              [] c = "remaining_distinct_mergers" -> "pending_distinct_aggregators"
              [] c = "remaining_distinct_aggregators" -> "pending_mergers"
              [] c = "remaining_mergers" -> "pending_drainers"
(* the gate a partition must have passed before it may decrement a counter *)
PriorGate(c) == CASE c = "remaining_distinct_mergers" -> "dmerge"
                  [] c = "remaining_distinct_aggregators" -> "dagg"
                  [] c = "remaining_mergers" -> "merge"
                  [] OTHER -> "none"

ModelJson == [rem |-> <<rem["remaining_normal"], rem["remaining_distinct_mergers"], rem["remaining_distinct_aggregators"], rem["remaining_mergers"]>>,
              oblig |-> oblig, distinct |-> distinct]
Bad(e, what) == PrintT(ToJson([mismatch |-> l, ev |-> e.ev, lab |-> e.lab, what |-> what, model |-> ModelJson]))
Quiet == (\A w \in Wakers : parked[w] = {}) /\ oblig = <<>>

Step ==
  /\ l <= Len(Rec)
  /\ l' = l + 1
  /\ LET e == Rec[l] IN
     IF e.ev = "OpInit" THEN
        /\ IF failed \/ Quiet THEN TRUE ELSE Bad(e, "previous-operator-left-parked-partitions")
        /\ Fresh /\ failed' = e.failed /\ distinct' = e.distinct /\ parts' = e.parts
     ELSE
     /\ UNCHANGED <<failed, distinct, parts>>
     /\ IF oblig = <<>> \/ (e.ev = "WakeAll" /\ e.lab = oblig[1]) \/ e.ev = "Flush" THEN TRUE ELSE Bad(e, "wake_all-owed-by-last-decrement-missing")
     /\ CASE e.ev = "CountSet" ->
               /\ IF e.n = parts THEN TRUE ELSE Bad(e, "count-set-to-other-than-partitions")
               /\ rem' = [rem EXCEPT ![e.lab] = e.n]
               /\ oblig' = <<>> /\ UNCHANGED <<parked, passed>>
          [] e.ev = "CountDec" ->
               /\ IF rem[e.lab] # 99 /\ rem[e.lab] >= 1 /\ e.n = rem[e.lab] - 1 THEN TRUE ELSE Bad(e, "count")
               (* a partition finishes a phase only after it passed the gate into that phase *)
               /\ IF PriorGate(e.lab) = "none" \/ parts - e.n <= Cardinality(passed[PriorGate(e.lab)]) THEN TRUE
                  ELSE Bad(e, "phase-finished-without-passing-its-gate")
               /\ rem' = [rem EXCEPT ![e.lab] = e.n]
               /\ oblig' = IF e.n = 0 THEN <<Wakes(e.lab)>> ELSE <<>>
               /\ UNCHANGED <<parked, passed>>
          [] e.ev = "WakeAll" ->
               /\ IF SetOf(e.ps) = parked[e.lab] THEN TRUE ELSE Bad(e, "woken-set")
               (* a wake_all before the gating counter reaches zero is a spurious wake-up: harmless (the woken partitions
                  re-check under the lock and park again), so it is accepted *)
               /\ parked' = [parked EXCEPT ![e.lab] = {}]
               /\ oblig' = <<>> /\ UNCHANGED <<rem, passed>>
          [] e.ev = "Store" ->
               (* parking is legal only while the gate is closed (checked under the same lock) *)
               /\ IF rem[WakerCounter(e.lab)] # 0 THEN TRUE ELSE Bad(e, "parked-on-open-gate")
               /\ parked' = [parked EXCEPT ![e.lab] = @ \cup SetOf(e.ps)]
               /\ oblig' = <<>> /\ UNCHANGED <<rem, passed>>
          [] e.ev = "Pass" ->
               /\ IF e.c = <<rem["remaining_normal"], rem["remaining_distinct_mergers"], rem["remaining_distinct_aggregators"], rem["remaining_mergers"]>>
                  THEN TRUE ELSE Bad(e, "counters-differ-from-model")
               /\ IF rem[GateCounter(e.lab)] = 0 THEN TRUE ELSE Bad(e, "passed-gate-too-early")
               /\ IF e.lab \in {"dmerge", "dagg"} => distinct THEN TRUE ELSE Bad(e, "distinct-phase-without-distinct-aggregates")
               /\ passed' = [passed EXCEPT ![e.lab] = @ \cup {e.p}]
               /\ oblig' = <<>> /\ UNCHANGED <<rem, parked>>
          [] e.ev = "Flush" ->
               (* without DISTINCT aggregates a partition flushes its tables in the critical section that decrements
                  remaining_normal (HashAggOp.tla: Finalize is one action): the hook logs whether the lock was held *)
               /\ IF e.n = 1 THEN TRUE ELSE Bad(e, "finalize-flush-outside-the-critical-section")
               /\ IF ~distinct THEN TRUE ELSE Bad(e, "finalize-flush-with-distinct-aggregates")
               /\ UNCHANGED <<rem, parked, passed, oblig>>
          [] OTHER -> UNCHANGED <<rem, parked, passed, oblig>>

Final ==
  /\ l = Len(Rec) + 1
  /\ l' = l + 1
  /\ IF failed \/ Quiet THEN TRUE
     ELSE PrintT(ToJson([mismatch |-> l, ev |-> "End", lab |-> "", what |-> "partitions-left-parked", model |-> ModelJson]))
  /\ UNCHANGED <<rem, parked, passed, distinct, parts, oblig, failed>>

TNext == Step \/ Final
TSpec == TInit /\ [][TNext]_vars
Accepted == TLCGet("stats").diameter = Len(Rec) + 2
=============================================================================
