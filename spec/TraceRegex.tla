------------------------------ MODULE TraceRegex ------------------------------
(* Verdict-style validation of the regexp functions (C20). Lines:
   [id, f = "like" | "instr" | "count" | "replace", r (pattern AST; sets as sequences), s, rep, out = [k, v]]
   out.k = "val" with v = <<x>> for integers / booleans (0/1) or a code-point sequence for strings.   *)
EXTENDS Regex, TLC, Json, IOUtils
Rec == ndJsonDeserialize(IOEnv.TRACE)
VARIABLE l
RECURSIVE Norm(_)
Norm(r) ==     \* JSON carries sets as arrays
  CASE r.k = "cls" -> [k |-> "cls", neg |-> r.neg, set |-> {r.set[i] : i \in DOMAIN r.set}]
    [] r.k \in {"cat", "alt"} -> [k |-> r.k, a |-> Norm(r.a), b |-> Norm(r.b)]
    [] r.k \in {"star", "plus", "opt"} -> [k |-> r.k, a |-> Norm(r.a)]
    [] OTHER -> r
Exp(x) ==
  LET r == Norm(x.r) IN
  CASE x.f = "like" -> <<IF IsMatch(r, x.s) THEN 1 ELSE 0>>
    [] x.f = "instr" -> <<Instr(r, x.s)>>
    [] x.f = "count" -> <<Count(r, x.s)>>
    [] x.f = "replace" -> ReplaceFirst(r, x.s, x.rep)
(* regexp_count over a pattern that matches the empty string: whether an empty match adjacent to the previous match
   counts is a convention the property does not fix - any integer is accepted there *)
Nullable(r) == Pref(r, <<>>, 1) # <<>>
OK(x) == /\ x.out.k = "val"
         /\ IF x.f = "count" /\ Nullable(Norm(x.r)) THEN Len(x.out.v) = 1 ELSE x.out.v = Exp(x)
TInit == l = 1
TNext == /\ l <= Len(Rec) /\ l' = l + 1
         /\ IF OK(Rec[l]) THEN TRUE ELSE PrintT(ToJson([mismatch |-> Rec[l].id, exp |-> Exp(Rec[l])]))
TSpec == TInit /\ [][TNext]_l
Accepted == TLCGet("stats").diameter - 1 = Len(Rec)
=============================================================================
