------------------------------- MODULE Algebra -------------------------------
(* The meaning of expressions and queries: bag semantics, three-valued logic,
   NULL-padded outer rows, and *nested evaluation* of subqueries with the
   enclosing rows bound in env (the meaning a decorrelator must preserve).

   db   : function  table-name -> sequence of rows   (a row is a sequence of values)
   env  : sequence of enclosing rows, innermost last
   row  : the current row

   Expression and query terms are records discriminated by field k; see
   /verif/lib/sqlgen.py for the concrete syntax each term is rendered to.    *)
EXTENDS Values, SequencesExt

NoExpr == [k |-> "none"]

RECURSIVE EvalE(_, _, _, _), EvalQ(_, _, _), EvalCase(_, _, _, _, _), EvalCoalesce(_, _, _, _)

EvalSeq(es, row, env, db) == [i \in 1..Len(es) |-> EvalE(es[i], row, env, db)]

ArithV(op, a, b) ==
  IF IsNull(a) \/ IsNull(b) THEN NULL
  ELSE CASE op = "add" -> V(a[1] + b[1])
         [] op = "sub" -> V(a[1] - b[1])
         [] op = "mul" -> V(a[1] * b[1])

FirstCol(rows) == [i \in 1..Len(rows) |-> rows[i][1]]

EvalE(e, row, env, db) ==
  CASE e.k = "col"    -> IF e.up = 0 THEN row[e.i] ELSE env[Len(env) - e.up + 1][e.i]
    [] e.k = "lit"    -> e.v
    [] e.k = "cmp"    -> Cmp(e.op, EvalE(e.l, row, env, db), EvalE(e.r, row, env, db))
    [] e.k = "and"    -> And3(EvalE(e.l, row, env, db), EvalE(e.r, row, env, db))
    [] e.k = "or"     -> Or3(EvalE(e.l, row, env, db), EvalE(e.r, row, env, db))
    [] e.k = "not"    -> Not3(EvalE(e.x, row, env, db))
    [] e.k = "isnull" -> B(IsNull(EvalE(e.x, row, env, db)))
    [] e.k = "notnull" -> B(~IsNull(EvalE(e.x, row, env, db)))
    [] e.k = "distinct" -> IsDistinct(EvalE(e.l, row, env, db), EvalE(e.r, row, env, db))
    [] e.k = "notdistinct" -> Not3(IsDistinct(EvalE(e.l, row, env, db), EvalE(e.r, row, env, db)))
    [] e.k = "arith"  -> ArithV(e.op, EvalE(e.l, row, env, db), EvalE(e.r, row, env, db))
    [] e.k = "neg"    -> LET x == EvalE(e.x, row, env, db) IN IF IsNull(x) THEN NULL ELSE V(-x[1])
    [] e.k = "case"   -> EvalCase(e, 1, row, env, db)
    [] e.k = "coalesce" -> EvalCoalesce(e.args, row, env, db)
    [] e.k = "inlist" -> LET x == EvalE(e.x, row, env, db)
                             vs == EvalSeq(e.list, row, env, db)
                         IN Or3Seq([i \in 1..Len(vs) |-> Cmp("eq", x, vs[i])])
    [] e.k = "between" -> LET x == EvalE(e.x, row, env, db)
                          IN And3(Cmp("ge", x, EvalE(e.lo, row, env, db)),
                                  Cmp("le", x, EvalE(e.hi, row, env, db)))
    (* --- subqueries: evaluated for THIS row, bound as the innermost env row --- *)
    [] e.k = "scalar" -> LET rs == EvalQ(e.q, db, Append(env, row))
                         IN IF rs = <<>> THEN NULL ELSE rs[1][1]
    [] e.k = "exists" -> B(EvalQ(e.q, db, Append(env, row)) # <<>>)
    [] e.k = "insub"  -> LET x == EvalE(e.x, row, env, db)
                             vs == FirstCol(EvalQ(e.q, db, Append(env, row)))
                         IN Or3Seq([i \in 1..Len(vs) |-> Cmp("eq", x, vs[i])])
    [] e.k = "quant"  -> LET x == EvalE(e.x, row, env, db)
                             vs == FirstCol(EvalQ(e.q, db, Append(env, row)))
                             cs == [i \in 1..Len(vs) |-> Cmp(e.op, x, vs[i])]
                         IN IF e.all THEN And3Seq(cs) ELSE Or3Seq(cs)

EvalCase(e, i, row, env, db) ==
  IF i > Len(e.whens) THEN EvalE(e.els, row, env, db)
  ELSE IF EvalE(e.whens[i].c, row, env, db) = T THEN EvalE(e.whens[i].t, row, env, db)
  ELSE EvalCase(e, i + 1, row, env, db)

EvalCoalesce(args, row, env, db) ==
  IF args = <<>> THEN NULL
  ELSE LET x == EvalE(Head(args), row, env, db)
       IN IF IsNull(x) THEN EvalCoalesce(Tail(args), row, env, db) ELSE x

(* ------------------------------ aggregates ------------------------------ *)
RECURSIVE SumSeq(_)
SumSeq(s) == IF s = <<>> THEN 0 ELSE s[1][1] + SumSeq(Tail(s))

RECURSIVE SqSumSeq(_)
SqSumSeq(s) == IF s = <<>> THEN 0 ELSE s[1][1] * s[1][1] + SqSumSeq(Tail(s))

RECURSIVE MinSeq(_), MaxSeq(_)
MinSeq(s) == IF Len(s) = 1 THEN s[1]
             ELSE LET m == MinSeq(Tail(s)) IN IF NumLt(s[1], m) THEN s[1] ELSE m
MaxSeq(s) == IF Len(s) = 1 THEN s[1]
             ELSE LET m == MaxSeq(Tail(s)) IN IF NumLt(m, s[1]) THEN s[1] ELSE m

(* vals: the non-NULL argument values of the group's (filtered) rows; n: number of (filtered) rows *)
AggValue(f, star, vals, n) ==
  CASE f = "count" -> IF star THEN V(n) ELSE V(Len(vals))
    [] f = "sum"   -> IF vals = <<>> THEN NULL ELSE V(SumSeq(vals))
    [] f = "min"   -> IF vals = <<>> THEN NULL ELSE MinSeq(vals)
    [] f = "max"   -> IF vals = <<>> THEN NULL ELSE MaxSeq(vals)
    [] f = "avg"   -> IF vals = <<>> THEN NULL ELSE Rat(SumSeq(vals), Len(vals))
    (* population / sample variance, exactly: (n * sum(x^2) - sum(x)^2) / n^2  resp.  / (n (n - 1)) *)
    [] f = "var_pop"  -> IF vals = <<>> THEN NULL
                         ELSE LET m == Len(vals) s == SumSeq(vals) IN Rat(m * SqSumSeq(vals) - s * s, m * m)
    [] f = "var_samp" -> IF Len(vals) < 2 THEN NULL
                         ELSE LET m == Len(vals) s == SumSeq(vals) IN Rat(m * SqSumSeq(vals) - s * s, m * (m - 1))
    [] f = "bool_and" -> IF vals = <<>> THEN NULL ELSE B(\A i \in DOMAIN vals : vals[i] = T)
    [] f = "bool_or"  -> IF vals = <<>> THEN NULL ELSE B(\E i \in DOMAIN vals : vals[i] = T)

AggOne(a, rows, env, db) ==
  LET frows == IF a.filt.k = "none" THEN rows
               ELSE SelectSeq(rows, LAMBDA r : EvalE(a.filt, r, env, db) = T)
      args  == IF a.star THEN <<>> ELSE [i \in 1..Len(frows) |-> EvalE(a.x, frows[i], env, db)]
      nn    == SelectSeq(args, LAMBDA v : ~IsNull(v))
      vals  == IF a.dist THEN Dedup(nn) ELSE nn
  IN AggValue(a.f, a.star, vals, Len(frows))

(* One grouping set: gs is a sequence of key indices that are grouped on. *)
GroupsFor(q, gs, rows, env, db) ==
  LET nk      == Len(q.keys)
      keyOf(r) == [j \in 1..nk |-> IF \E m \in DOMAIN gs : gs[m] = j
                                   THEN EvalE(q.keys[j], r, env, db) ELSE NULL]
      ks      == [i \in 1..Len(rows) |-> keyOf(rows[i])]
      dk      == Dedup(ks)
      (* ungrouped aggregate (no keys at all): exactly one group, also for empty input *)
      groups  == IF nk = 0 THEN << <<>> >> ELSE dk
      member(g) == IF nk = 0 THEN rows
                   ELSE SelectSeq(rows, LAMBDA r : keyOf(r) = g)
      grp(gi) == [m \in 1..Len(q.grouping) |->
                    LET a == q.grouping[m]    \* sequence of key indices
                        bit(p) == IF \E t \in DOMAIN gs : gs[t] = a[p] THEN 0 ELSE 1
                        RECURSIVE mask(_)
                        mask(p) == IF p > Len(a) THEN 0
                                   ELSE bit(p) * (2 ^ (Len(a) - p)) + mask(p + 1)
                    IN V(mask(1))]
  IN [gi \in 1..Len(groups) |->
        groups[gi]
        \o [ai \in 1..Len(q.aggs) |-> AggOne(q.aggs[ai], member(groups[gi]), env, db)]
        \o grp(gi)]

(* ------------------------------- sorting -------------------------------- *)
RowLe(keys, env, db, r1, r2) ==
  LET RECURSIVE go(_)
      go(i) == IF i > Len(keys) THEN TRUE
               ELSE LET c == SortCmpV(EvalE(keys[i].e, r1, env, db), EvalE(keys[i].e, r2, env, db),
                                      keys[i].desc, NullsFirst(keys[i]))
                    IN IF c < 0 THEN TRUE ELSE IF c > 0 THEN FALSE ELSE go(i + 1)
  IN go(1)

RowKeyEq(keys, env, db, r1, r2) ==
  \A i \in DOMAIN keys :
     SortCmpV(EvalE(keys[i].e, r1, env, db), EvalE(keys[i].e, r2, env, db), FALSE, FALSE) = 0

(* Insertion sort: stable, and uses only the "less-or-equal" relation. *)
RECURSIVE InsSorted(_, _, _, _, _), SortRows(_, _, _, _)
InsSorted(keys, env, db, s, r) ==
  IF s = <<>> THEN <<r>>
  ELSE IF RowLe(keys, env, db, s[Len(s)], r) THEN Append(s, r)
  ELSE Append(InsSorted(keys, env, db, SubSeq(s, 1, Len(s) - 1), r), s[Len(s)])
SortRows(keys, env, db, rows) ==
  IF rows = <<>> THEN <<>>
  ELSE InsSorted(keys, env, db, SortRows(keys, env, db, SubSeq(rows, 1, Len(rows) - 1)), rows[Len(rows)])

NullRow(n) == [i \in 1..n |-> NULL]

Slice(rows, n, off) ==
  IF off >= Len(rows) \/ n = 0 THEN <<>>
  ELSE SubSeq(rows, off + 1, Min2(Len(rows), off + n))

(* -------------------------------- queries -------------------------------- *)
EvalQ(q, db, env) ==
  CASE q.k = "scan"   -> db[q.t]
    [] q.k = "values" -> q.rows
    [] q.k = "filter" -> LET rows == EvalQ(q.c, db, env)
                         IN SelectSeq(rows, LAMBDA r : EvalE(q.p, r, env, db) = T)
    [] q.k = "project" -> LET rows == EvalQ(q.c, db, env)
                          IN [i \in 1..Len(rows) |-> EvalSeq(q.es, rows[i], env, db)]
    [] q.k = "join"   ->
         LET L == EvalQ(q.l, db, env)
             (* a lateral right side sees the left row as its innermost env row *)
             Rfor(i) == IF q.lateral THEN EvalQ(q.r, db, Append(env, L[i])) ELSE EvalQ(q.r, db, env)
             Rall == IF q.lateral THEN <<>> ELSE EvalQ(q.r, db, env)
             R(i) == IF q.lateral THEN Rfor(i) ELSE Rall
             m(i) == LET Ri == R(i)
                     IN SelectSeq([j \in 1..Len(Ri) |-> L[i] \o Ri[j]],
                                  LAMBDA r : EvalE(q.on, r, env, db) = T)
             per(i) ==
               CASE q.jt = "inner" -> m(i)
                 [] q.jt = "cross" -> LET Ri == R(i) IN [j \in 1..Len(Ri) |-> L[i] \o Ri[j]]
                 [] q.jt = "left"  -> LET mi == m(i) IN IF mi = <<>> THEN << L[i] \o NullRow(q.rw) >> ELSE mi
                 [] q.jt = "semi"  -> IF m(i) = <<>> THEN <<>> ELSE << L[i] >>
                 [] q.jt = "anti"  -> IF m(i) = <<>> THEN << L[i] >> ELSE <<>>
                 [] q.jt = "right" -> m(i)
             inner == FlattenSeq([i \in 1..Len(L) |-> per(i)])
         IN IF q.jt # "right" THEN inner
            ELSE (* right outer: matched pairs plus unmatched right rows, NULL-padded on the left *)
                 LET unmatched == SelectSeq([j \in 1..Len(Rall) |-> j],
                        LAMBDA j : ~\E i \in 1..Len(L) : EvalE(q.on, L[i] \o Rall[j], env, db) = T)
                 IN inner \o [u \in 1..Len(unmatched) |-> NullRow(q.lw) \o Rall[unmatched[u]]]
    [] q.k = "agg"    -> LET rows == EvalQ(q.c, db, env)
                         IN FlattenSeq([s \in 1..Len(q.sets) |-> GroupsFor(q, q.sets[s], rows, env, db)])
    [] q.k = "distinct" -> Dedup(EvalQ(q.c, db, env))
    [] q.k = "union"  -> LET u == EvalQ(q.l, db, env) \o EvalQ(q.r, db, env)
                         IN IF q.all THEN u ELSE Dedup(u)
    [] q.k = "sort"   -> SortRows(q.keys, env, db, EvalQ(q.c, db, env))
    [] q.k = "limit"  -> Slice(EvalQ(q.c, db, env), q.n, q.off)
    [] q.k = "with"   -> LET body == EvalQ(q.body, db, env)
                         IN EvalQ(q.c, [n \in (DOMAIN db) \cup {q.name} |->
                                           IF n = q.name THEN body ELSE db[n]], env)
=============================================================================
