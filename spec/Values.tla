------------------------------- MODULE Values -------------------------------
(* SQL values as TLC-friendly terms.

   A value is a sequence of integers:
     <<>>        NULL
     <<n>>       an integer / a boolean (0,1) / a text (order-preserving dictionary index)
     <<n, d>>    a non-integral rational n/d in lowest terms, d > 1 (AVG results)
   TLC refuses to compare values of different shapes (1 vs a record, TRUE vs <<>>),
   so every SQL value uses this one shape and booleans are the integers 0/1.      *)
EXTENDS Integers, Sequences, FiniteSets, TLC

NULL      == <<>>
V(x)      == <<x>>
IsNull(v) == v = <<>>
T         == <<1>>
F         == <<0>>
B(b)      == IF b THEN T ELSE F

(* Three-valued logic (SQL:2016 8.? / Kleene) *)
And3(a, b) == IF a = F \/ b = F THEN F ELSE IF IsNull(a) \/ IsNull(b) THEN NULL ELSE T
Or3(a, b)  == IF a = T \/ b = T THEN T ELSE IF IsNull(a) \/ IsNull(b) THEN NULL ELSE F
Not3(a)    == IF IsNull(a) THEN NULL ELSE IF a = T THEN F ELSE T

RECURSIVE And3Seq(_), Or3Seq(_)
And3Seq(s) == IF s = <<>> THEN T ELSE And3(Head(s), And3Seq(Tail(s)))
Or3Seq(s)  == IF s = <<>> THEN F ELSE Or3(Head(s), Or3Seq(Tail(s)))

(* Numbers: <<n>> or <<n,d>> *)
Num(v) == IF Len(v) = 1 THEN v[1] ELSE v[1]
Den(v) == IF Len(v) = 1 THEN 1 ELSE v[2]

Abs(x) == IF x < 0 THEN -x ELSE x
RECURSIVE Gcd(_, _)
Gcd(a, b) == IF b = 0 THEN Abs(a) ELSE Gcd(b, a % b)

(* n/d in normal form (d > 0) *)
Rat(n, d) == LET g == Gcd(n, d) nn == n \div g dd == d \div g
             IN IF dd = 1 THEN <<nn>> ELSE <<nn, dd>>

NumLt(a, b) == Num(a) * Den(b) < Num(b) * Den(a)

Rel(op, a, b) ==
  CASE op = "eq" -> a = b
    [] op = "ne" -> a # b
    [] op = "lt" -> NumLt(a, b)
    [] op = "le" -> NumLt(a, b) \/ a = b
    [] op = "gt" -> NumLt(b, a)
    [] op = "ge" -> NumLt(b, a) \/ a = b

(* Comparison with NULL propagation *)
Cmp(op, a, b) == IF IsNull(a) \/ IsNull(b) THEN NULL ELSE B(Rel(op, a, b))

(* IS [NOT] DISTINCT FROM: NULL-safe, two-valued *)
IsDistinct(a, b) == B(a # b)

(* Total pre-order used by ORDER BY. Returns -1, 0, 1.
   nf = TRUE puts NULLs first. desc reverses non-NULL order only.           *)
SortCmpV(a, b, desc, nf) ==
  IF IsNull(a) /\ IsNull(b) THEN 0
  ELSE IF IsNull(a) THEN (IF nf THEN -1 ELSE 1)
  ELSE IF IsNull(b) THEN (IF nf THEN 1 ELSE -1)
  ELSE IF a = b THEN 0
  ELSE IF NumLt(a, b) THEN (IF desc THEN 1 ELSE -1)
  ELSE (IF desc THEN -1 ELSE 1)

(* Default NULL placement (docs/sql: NULLs are largest): ASC -> last, DESC -> first *)
NullsFirst(key) == IF key.nf = "first" THEN TRUE
                   ELSE IF key.nf = "last" THEN FALSE
                   ELSE key.desc

(* Sequence helpers *)
RECURSIVE FlattenSeq(_)
FlattenSeq(ss) == IF ss = <<>> THEN <<>> ELSE Head(ss) \o FlattenSeq(Tail(ss))

SeqRange(s) == {s[i] : i \in DOMAIN s}

Count(s, x) == Cardinality({i \in DOMAIN s : s[i] = x})

BagEq(a, b) == /\ Len(a) = Len(b)
               /\ \A x \in SeqRange(a) \cup SeqRange(b) : Count(a, x) = Count(b, x)

SubBag(a, b) == \A x \in SeqRange(a) : Count(a, x) <= Count(b, x)

(* Remove duplicates, keeping first occurrences *)
RECURSIVE Dedup(_)
Dedup(s) == IF s = <<>> THEN <<>>
            ELSE LET r == Dedup(SubSeq(s, 1, Len(s) - 1)) x == s[Len(s)]
                 IN IF x \in SeqRange(r) THEN r ELSE Append(r, x)

Min2(a, b) == IF a < b THEN a ELSE b
Max2(a, b) == IF a > b THEN a ELSE b
=============================================================================
