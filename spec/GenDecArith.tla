----------------------------- MODULE GenDecArith -----------------------------
(* Generator for C12 (decimals): operand type pairs x operators x boundary
   classes of operand values. A class is instantiated per type by the
   orchestrator: "max" = 10^p - 1, "min" = -(10^p - 1), "half" = 5 * 10^(p-1),
   "unit" = 1 (the smallest positive value at the scale), "one" = 10^s (1.0),
   "zero", "negunit", "maxm1" = 10^p - 2, "p10" = 10^(p-1), "negp10".
   Integer operand types have scale 0 and their own limits.
   round(x, d): the tie classes are 1.5 units of the kept digit (+-), and its
   neighbours one unit of the dropped scale below / above.                    *)
EXTENDS Integers, Sequences, FiniteSets, TLC, Json
CONSTANT SampleK
DecTypes == { <<4, 1>>, <<9, 3>>, <<9, 0>>, <<18, 4>>, <<18, 0>>, <<18, 17>>, <<19, 2>>, <<30, 10>>, <<38, 0>>, <<38, 10>>, <<38, 37>> }
IntTypes == { "TINYINT", "SMALLINT", "INT", "BIGINT" }
Classes == { "max", "min", "half", "unit", "one", "zero", "negunit", "maxm1", "p10", "negp10" }
Operand == { [k |-> "dec", p |-> t[1], s |-> t[2]] : t \in DecTypes } \cup { [k |-> "int", ty |-> n] : n \in IntTypes }
VARIABLE c
Init == \/ \E a \in Operand, b \in Operand, op \in {"add", "sub", "mul"}, ca \in Classes, cb \in Classes :
             /\ (a.k = "dec" \/ b.k = "dec")
             /\ c = [kind |-> "bin", op |-> op, a |-> a, b |-> b, ca |-> ca, cb |-> cb]
        \/ \E a \in Operand, op \in {"neg", "abs"}, ca \in Classes :
             a.k = "dec" /\ c = [kind |-> "un", op |-> op, a |-> a, b |-> a, ca |-> ca, cb |-> ca]
        \/ \E a \in Operand, ca \in Classes, cb \in Classes, n \in {1, 2, 10, 11} :
             a.k = "dec" /\ c = [kind |-> "sum", op |-> "sum", a |-> a, b |-> a, ca |-> ca, cb |-> cb, n |-> n]
        \/ \E a \in Operand, d \in {0, 1, 2, 5, 20}, cr \in {"tiepos", "tieneg", "belowtie", "abovetie", "negbelowtie", "max", "min", "zero", "unit", "negunit"} :
             /\ a.k = "dec" /\ d <= a.s + 1
             /\ c = [kind |-> "round", op |-> "round", a |-> a, b |-> a, ca |-> cr, cb |-> cr, n |-> d]
Next == UNCHANGED c
(* deterministic sampling (so that recorded findings replay in every run): a case is kept when a fixed mix of its fields
   is 0 modulo SampleK *)
ClsSeq == <<"max", "min", "half", "unit", "one", "zero", "negunit", "maxm1", "p10", "negp10", "tiepos", "tieneg", "belowtie", "abovetie", "negbelowtie">>
Idx(x) == CHOOSE i \in DOMAIN ClsSeq : ClsSeq[i] = x
OpSeq == <<"add", "sub", "mul", "neg", "abs", "sum", "round">>
OpIdx(x) == CHOOSE i \in DOMAIN OpSeq : OpSeq[i] = x
TyKey(t) == IF t.k = "dec" THEN t.p * 5 + t.s ELSE (CASE t.ty = "TINYINT" -> 1 [] t.ty = "SMALLINT" -> 2 [] t.ty = "INT" -> 3 [] OTHER -> 4)
Key(x) == Idx(x.ca) * 7 + Idx(x.cb) * 3 + TyKey(x.a) * 11 + TyKey(x.b) * 13 + OpIdx(x.op) * 17 + (IF "n" \in DOMAIN x THEN x.n ELSE 0)
Emit == (SampleK = 1 \/ Key(c) % SampleK = 0) => PrintT(ToJson(c))
=============================================================================
