---------------------------- MODULE TraceDecArith ----------------------------
(* Verdict-style validation of decimal arithmetic observations (C12).
   Lines: [id, kind = "bin" | "un" | "sum" | "round", op, u1, s1, u2, s2, rp, rs (announced type, from DESCRIBE), vs, out] *)
EXTENDS DecArith, TLC, Json, IOUtils
Rec == ndJsonDeserialize(IOEnv.TRACE)
VARIABLE l
Why(r) == IF r.kind = "round" THEN
               (IF r.out.k = "err" THEN (IF RoundErrOK(r.u1, r.s1, r.s2, r.rp, r.rs) THEN "ok" ELSE "spurious-error")
                ELSE RoundOK(r.u1, r.s1, r.s2, r.rp, r.rs, r.out, r.u2))       \* s2 carries d, u2 the witness
          ELSE IF r.kind = "sum" THEN SumDecOK(r.vs, r.s1, r.rp, r.rs, r.out)
          ELSE DecOK(r.op, r.u1, r.s1, r.u2, r.s2, r.rp, r.rs, r.out)
TInit == l = 1
TNext == /\ l <= Len(Rec) /\ l' = l + 1
         /\ LET w == Why(Rec[l]) IN IF w = "ok" THEN TRUE ELSE PrintT(ToJson([mismatch |-> Rec[l].id, why |-> w]))
TSpec == TInit /\ [][TNext]_l
Accepted == TLCGet("stats").diameter - 1 = Len(Rec)
=============================================================================
