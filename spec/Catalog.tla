------------------------------- MODULE Catalog -------------------------------
(* k independent sessions over the statement semantics of CatalogDefs.tla
   (Apply: one pure function per statement kind, failure = unchanged state).   *)
EXTENDS CatalogDefs

(* ------------------------- the system: k independent sessions ------------------------- *)
CONSTANTS Sessions, MaxLen, MaxRows

VARIABLES sess,   \* [session -> state]
          hist    \* statement history (hidden from the fingerprint by VIEW)
vars == <<sess, hist>>
View == sess

Init == sess = [s \in Sessions |-> InitSess] /\ hist = <<>>

Exec(s, stmt) ==
  /\ Len(hist) < MaxLen
  /\ sess' = [sess EXCEPT ![s] = Apply(stmt, sess[s]).st]
  /\ hist' = Append(hist, [s |-> s, stmt |-> stmt])

Next == \E s \in Sessions, stmt \in Stmts : Exec(s, stmt)
Spec == Init /\ [][Next]_vars

Small == \A s \in Sessions : \A k \in DOMAIN sess[s].ents : Size(sess[s].ents[k].bag) <= MaxRows

(* ------------------------------- properties ------------------------------- *)
(* name resolution: nothing lives in a schema that does not exist *)
NoOrphans == \A s \in Sessions : \A k \in DOMAIN sess[s].ents : k[1] \in sess[s].schemas
(* temp always exists in the modelled universe *)
TempExists == \A s \in Sessions : "temp" \in sess[s].schemas
(* isolation: a step of one session leaves the others unchanged *)
Isolation == [][\A s \in Sessions : (sess'[s] # sess[s]) => \A r \in Sessions \ {s} : sess'[r] = sess[r]]_vars
(* a failing statement is a stutter on the catalog *)
FailChangesNothing == \A s \in Sessions, stmt \in Stmts : ~Apply(stmt, sess[s]).ok => Apply(stmt, sess[s]).st = sess[s]
(* INSERT ... SELECT from the target doubles it (reads the pre-state) *)
SelfInsertDoubles ==
  \A s \in Sessions, k \in Tabs :
     (k \in DOMAIN sess[s].ents) =>
        LET r == Apply([op |-> "insert_select", sch |-> k[1], name |-> k[2], ssch |-> k[1], sname |-> k[2]], sess[s])
        IN r.ok /\ r.st.ents[k].bag = Add(sess[s].ents[k].bag, sess[s].ents[k].bag)
=============================================================================
