------------------------------- MODULE GenRegex -------------------------------
(* Generator for the regular-expression part of C20: every pattern AST of depth
   <= Depth over a small alphabet; the orchestrator renders an AST to regex
   syntax (parenthesising every composite), and pairs it with all short strings. *)
EXTENDS Integers, Sequences, FiniteSets, TLC, Json
CONSTANTS Depth, SampleK
Atoms == { [k |-> "lit", c |-> 97], [k |-> "lit", c |-> 98], [k |-> "lit", c |-> 233], [k |-> "any"],
           [k |-> "cls", neg |-> FALSE, set |-> {97, 98}], [k |-> "cls", neg |-> TRUE, set |-> {97}],
           [k |-> "bol"], [k |-> "eol"] }
RECURSIVE Pats(_)
Pats(d) == IF d = 0 THEN Atoms
           ELSE LET P == Pats(d - 1) IN
                P \cup { [k |-> op, a |-> p] : op \in {"star", "plus", "opt"}, p \in {x \in P : x.k \notin {"bol", "eol", "star", "plus", "opt"}} }
                  \cup { [k |-> op, a |-> p, b |-> q] : op \in {"cat", "alt"}, p \in P, q \in P }
VARIABLE c
Init == c \in Pats(Depth)
Next == UNCHANGED c
Emit == (SampleK = 1 \/ RandomElement(1..SampleK) = 1) => PrintT(ToJson(c))
=============================================================================
