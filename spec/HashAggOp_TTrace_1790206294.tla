---- MODULE HashAggOp_TTrace_1790206294 ----
EXTENDS Sequences, TLCExt, Toolbox, Naturals, TLC, HashAggOp

_expression ==
    LET HashAggOp_TEExpression == INSTANCE HashAggOp_TEExpression
    IN HashAggOp_TEExpression!expression
----

_trace ==
    LET HashAggOp_TETrace == INSTANCE HashAggOp_TETrace
    IN HashAggOp_TETrace!trace
----

_inv ==
    ~(
        TLCGet("level") = Len(_TETrace)
        /\
        remaining_normal = (0)
        /\
        dmerged = ({0, 1, 2})
        /\
        remaining_distinct_mergers = (0)
        /\
        merged = ({0, 1, 2})
        /\
        remaining_distinct_aggregators = (0)
        /\
        pending_distinct_aggregators = ({})
        /\
        pending_distinct_mergers = ({})
        /\
        pending_mergers = ({})
        /\
        flushed = ({0, 1, 2})
        /\
        runnable = ({0, 1, 2})
        /\
        pc = ((0 :> "done" @@ 1 :> "done" @@ 2 :> "done"))
        /\
        remaining_mergers = (0)
        /\
        pending_drainers = ({})
        /\
        dflushed = ({0, 1, 2})
    )
----

_init ==
    /\ dmerged = _TETrace[1].dmerged
    /\ merged = _TETrace[1].merged
    /\ remaining_normal = _TETrace[1].remaining_normal
    /\ pending_distinct_aggregators = _TETrace[1].pending_distinct_aggregators
    /\ pending_drainers = _TETrace[1].pending_drainers
    /\ pending_distinct_mergers = _TETrace[1].pending_distinct_mergers
    /\ flushed = _TETrace[1].flushed
    /\ pc = _TETrace[1].pc
    /\ pending_mergers = _TETrace[1].pending_mergers
    /\ remaining_distinct_aggregators = _TETrace[1].remaining_distinct_aggregators
    /\ runnable = _TETrace[1].runnable
    /\ dflushed = _TETrace[1].dflushed
    /\ remaining_mergers = _TETrace[1].remaining_mergers
    /\ remaining_distinct_mergers = _TETrace[1].remaining_distinct_mergers
----

_next ==
    /\ \E i,j \in DOMAIN _TETrace:
        /\ \/ /\ j = i + 1
              /\ i = TLCGet("level")
        /\ dmerged  = _TETrace[i].dmerged
        /\ dmerged' = _TETrace[j].dmerged
        /\ merged  = _TETrace[i].merged
        /\ merged' = _TETrace[j].merged
        /\ remaining_normal  = _TETrace[i].remaining_normal
        /\ remaining_normal' = _TETrace[j].remaining_normal
        /\ pending_distinct_aggregators  = _TETrace[i].pending_distinct_aggregators
        /\ pending_distinct_aggregators' = _TETrace[j].pending_distinct_aggregators
        /\ pending_drainers  = _TETrace[i].pending_drainers
        /\ pending_drainers' = _TETrace[j].pending_drainers
        /\ pending_distinct_mergers  = _TETrace[i].pending_distinct_mergers
        /\ pending_distinct_mergers' = _TETrace[j].pending_distinct_mergers
        /\ flushed  = _TETrace[i].flushed
        /\ flushed' = _TETrace[j].flushed
        /\ pc  = _TETrace[i].pc
        /\ pc' = _TETrace[j].pc
        /\ pending_mergers  = _TETrace[i].pending_mergers
        /\ pending_mergers' = _TETrace[j].pending_mergers
        /\ remaining_distinct_aggregators  = _TETrace[i].remaining_distinct_aggregators
        /\ remaining_distinct_aggregators' = _TETrace[j].remaining_distinct_aggregators
        /\ runnable  = _TETrace[i].runnable
        /\ runnable' = _TETrace[j].runnable
        /\ dflushed  = _TETrace[i].dflushed
        /\ dflushed' = _TETrace[j].dflushed
        /\ remaining_mergers  = _TETrace[i].remaining_mergers
        /\ remaining_mergers' = _TETrace[j].remaining_mergers
        /\ remaining_distinct_mergers  = _TETrace[i].remaining_distinct_mergers
        /\ remaining_distinct_mergers' = _TETrace[j].remaining_distinct_mergers

\* Uncomment the ASSUME below to write the states of the error trace
\* to the given file in Json format. Note that you can pass any tuple
\* to `JsonSerialize`. For example, a sub-sequence of _TETrace.
    \* ASSUME
    \*     LET J == INSTANCE Json
    \*         IN J!JsonSerialize("HashAggOp_TTrace_1790206294.json", _TETrace)

=============================================================================

 Note that you can extract this module `HashAggOp_TEExpression`
  to a dedicated file to reuse `expression` (the module in the 
  dedicated `HashAggOp_TEExpression.tla` file takes precedence 
  over the module `HashAggOp_TEExpression` below).

---- MODULE HashAggOp_TEExpression ----
EXTENDS Sequences, TLCExt, Toolbox, Naturals, TLC, HashAggOp

expression == 
    [
        \* To hide variables of the `HashAggOp` spec from the error trace,
        \* remove the variables below.  The trace will be written in the order
        \* of the fields of this record.
        dmerged |-> dmerged
        ,merged |-> merged
        ,remaining_normal |-> remaining_normal
        ,pending_distinct_aggregators |-> pending_distinct_aggregators
        ,pending_drainers |-> pending_drainers
        ,pending_distinct_mergers |-> pending_distinct_mergers
        ,flushed |-> flushed
        ,pc |-> pc
        ,pending_mergers |-> pending_mergers
        ,remaining_distinct_aggregators |-> remaining_distinct_aggregators
        ,runnable |-> runnable
        ,dflushed |-> dflushed
        ,remaining_mergers |-> remaining_mergers
        ,remaining_distinct_mergers |-> remaining_distinct_mergers
        
        \* Put additional constant-, state-, and action-level expressions here:
        \* ,_stateNumber |-> _TEPosition
        \* ,_dmergedUnchanged |-> dmerged = dmerged'
        
        \* Format the `dmerged` variable as Json value.
        \* ,_dmergedJson |->
        \*     LET J == INSTANCE Json
        \*     IN J!ToJson(dmerged)
        
        \* Lastly, you may build expressions over arbitrary sets of states by
        \* leveraging the _TETrace operator.  For example, this is how to
        \* count the number of times a spec variable changed up to the current
        \* state in the trace.
        \* ,_dmergedModCount |->
        \*     LET F[s \in DOMAIN _TETrace] ==
        \*         IF s = 1 THEN 0
        \*         ELSE IF _TETrace[s].dmerged # _TETrace[s-1].dmerged
        \*             THEN 1 + F[s-1] ELSE F[s-1]
        \*     IN F[_TEPosition - 1]
    ]

=============================================================================



Parsing and semantic processing can take forever if the trace below is long.
 In this case, it is advised to uncomment the module below to deserialize the
 trace from a generated binary file.

\*
\*---- MODULE HashAggOp_TETrace ----
\*EXTENDS IOUtils, TLC, HashAggOp
\*
\*trace == IODeserialize("HashAggOp_TTrace_1790206294.bin", TRUE)
\*
\*=============================================================================
\*

---- MODULE HashAggOp_TETrace ----
EXTENDS TLC, HashAggOp

trace == 
    <<
    ([remaining_normal |-> 3,dmerged |-> {},remaining_distinct_mergers |-> 3,merged |-> {},remaining_distinct_aggregators |-> 3,pending_distinct_aggregators |-> {},pending_distinct_mergers |-> {},pending_mergers |-> {},flushed |-> {},runnable |-> 0..2,pc |-> (0 :> "aggregating" @@ 1 :> "aggregating" @@ 2 :> "aggregating"),remaining_mergers |-> 3,pending_drainers |-> {},dflushed |-> {}]),
    ([remaining_normal |-> 2,dmerged |-> {},remaining_distinct_mergers |-> 3,merged |-> {},remaining_distinct_aggregators |-> 3,pending_distinct_aggregators |-> {},pending_distinct_mergers |-> {},pending_mergers |-> {},flushed |-> {},runnable |-> 0..2,pc |-> (0 :> "aggregating" @@ 1 :> "aggregating" @@ 2 :> "check_dmerge"),remaining_mergers |-> 3,pending_drainers |-> {},dflushed |-> {2}]),
    ([remaining_normal |-> 1,dmerged |-> {},remaining_distinct_mergers |-> 3,merged |-> {},remaining_distinct_aggregators |-> 3,pending_distinct_aggregators |-> {},pending_distinct_mergers |-> {},pending_mergers |-> {},flushed |-> {},runnable |-> 0..2,pc |-> (0 :> "aggregating" @@ 1 :> "check_dmerge" @@ 2 :> "check_dmerge"),remaining_mergers |-> 3,pending_drainers |-> {},dflushed |-> {1, 2}]),
    ([remaining_normal |-> 0,dmerged |-> {},remaining_distinct_mergers |-> 3,merged |-> {},remaining_distinct_aggregators |-> 3,pending_distinct_aggregators |-> {},pending_distinct_mergers |-> {},pending_mergers |-> {},flushed |-> {},runnable |-> {0, 1, 2},pc |-> (0 :> "check_dmerge" @@ 1 :> "check_dmerge" @@ 2 :> "check_dmerge"),remaining_mergers |-> 3,pending_drainers |-> {},dflushed |-> {0, 1, 2}]),
    ([remaining_normal |-> 0,dmerged |-> {},remaining_distinct_mergers |-> 3,merged |-> {},remaining_distinct_aggregators |-> 3,pending_distinct_aggregators |-> {},pending_distinct_mergers |-> {},pending_mergers |-> {},flushed |-> {},runnable |-> {0, 1, 2},pc |-> (0 :> "dmerging" @@ 1 :> "check_dmerge" @@ 2 :> "check_dmerge"),remaining_mergers |-> 3,pending_drainers |-> {},dflushed |-> {0, 1, 2}]),
    ([remaining_normal |-> 0,dmerged |-> {0},remaining_distinct_mergers |-> 2,merged |-> {},remaining_distinct_aggregators |-> 3,pending_distinct_aggregators |-> {},pending_distinct_mergers |-> {},pending_mergers |-> {},flushed |-> {},runnable |-> {0, 1, 2},pc |-> (0 :> "check_dagg" @@ 1 :> "check_dmerge" @@ 2 :> "check_dmerge"),remaining_mergers |-> 3,pending_drainers |-> {},dflushed |-> {0, 1, 2}]),
    ([remaining_normal |-> 0,dmerged |-> {0},remaining_distinct_mergers |-> 2,merged |-> {},remaining_distinct_aggregators |-> 3,pending_distinct_aggregators |-> {},pending_distinct_mergers |-> {},pending_mergers |-> {},flushed |-> {},runnable |-> {0, 1, 2},pc |-> (0 :> "check_dagg" @@ 1 :> "check_dmerge" @@ 2 :> "dmerging"),remaining_mergers |-> 3,pending_drainers |-> {},dflushed |-> {0, 1, 2}]),
    ([remaining_normal |-> 0,dmerged |-> {0},remaining_distinct_mergers |-> 2,merged |-> {},remaining_distinct_aggregators |-> 3,pending_distinct_aggregators |-> {},pending_distinct_mergers |-> {},pending_mergers |-> {},flushed |-> {},runnable |-> {0, 1, 2},pc |-> (0 :> "check_dagg" @@ 1 :> "dmerging" @@ 2 :> "dmerging"),remaining_mergers |-> 3,pending_drainers |-> {},dflushed |-> {0, 1, 2}]),
    ([remaining_normal |-> 0,dmerged |-> {0, 1},remaining_distinct_mergers |-> 1,merged |-> {},remaining_distinct_aggregators |-> 3,pending_distinct_aggregators |-> {},pending_distinct_mergers |-> {},pending_mergers |-> {},flushed |-> {},runnable |-> {0, 1, 2},pc |-> (0 :> "check_dagg" @@ 1 :> "check_dagg" @@ 2 :> "dmerging"),remaining_mergers |-> 3,pending_drainers |-> {},dflushed |-> {0, 1, 2}]),
    ([remaining_normal |-> 0,dmerged |-> {0, 1, 2},remaining_distinct_mergers |-> 0,merged |-> {},remaining_distinct_aggregators |-> 3,pending_distinct_aggregators |-> {},pending_distinct_mergers |-> {},pending_mergers |-> {},flushed |-> {},runnable |-> {0, 1, 2},pc |-> (0 :> "check_dagg" @@ 1 :> "check_dagg" @@ 2 :> "check_dagg"),remaining_mergers |-> 3,pending_drainers |-> {},dflushed |-> {0, 1, 2}]),
    ([remaining_normal |-> 0,dmerged |-> {0, 1, 2},remaining_distinct_mergers |-> 0,merged |-> {},remaining_distinct_aggregators |-> 3,pending_distinct_aggregators |-> {},pending_distinct_mergers |-> {},pending_mergers |-> {},flushed |-> {},runnable |-> {0, 1, 2},pc |-> (0 :> "dagg" @@ 1 :> "check_dagg" @@ 2 :> "check_dagg"),remaining_mergers |-> 3,pending_drainers |-> {},dflushed |-> {0, 1, 2}]),
    ([remaining_normal |-> 0,dmerged |-> {0, 1, 2},remaining_distinct_mergers |-> 0,merged |-> {},remaining_distinct_aggregators |-> 2,pending_distinct_aggregators |-> {},pending_distinct_mergers |-> {},pending_mergers |-> {},flushed |-> {0},runnable |-> {0, 1, 2},pc |-> (0 :> "check_merge" @@ 1 :> "check_dagg" @@ 2 :> "check_dagg"),remaining_mergers |-> 3,pending_drainers |-> {},dflushed |-> {0, 1, 2}]),
    ([remaining_normal |-> 0,dmerged |-> {0, 1, 2},remaining_distinct_mergers |-> 0,merged |-> {},remaining_distinct_aggregators |-> 2,pending_distinct_aggregators |-> {},pending_distinct_mergers |-> {},pending_mergers |-> {},flushed |-> {0},runnable |-> {0, 1, 2},pc |-> (0 :> "check_merge" @@ 1 :> "dagg" @@ 2 :> "check_dagg"),remaining_mergers |-> 3,pending_drainers |-> {},dflushed |-> {0, 1, 2}]),
    ([remaining_normal |-> 0,dmerged |-> {0, 1, 2},remaining_distinct_mergers |-> 0,merged |-> {},remaining_distinct_aggregators |-> 1,pending_distinct_aggregators |-> {},pending_distinct_mergers |-> {},pending_mergers |-> {},flushed |-> {0, 1},runnable |-> {0, 1, 2},pc |-> (0 :> "check_merge" @@ 1 :> "check_merge" @@ 2 :> "check_dagg"),remaining_mergers |-> 3,pending_drainers |-> {},dflushed |-> {0, 1, 2}]),
    ([remaining_normal |-> 0,dmerged |-> {0, 1, 2},remaining_distinct_mergers |-> 0,merged |-> {},remaining_distinct_aggregators |-> 1,pending_distinct_aggregators |-> {},pending_distinct_mergers |-> {},pending_mergers |-> {},flushed |-> {0, 1},runnable |-> {0, 1, 2},pc |-> (0 :> "check_merge" @@ 1 :> "check_merge" @@ 2 :> "dagg"),remaining_mergers |-> 3,pending_drainers |-> {},dflushed |-> {0, 1, 2}]),
    ([remaining_normal |-> 0,dmerged |-> {0, 1, 2},remaining_distinct_mergers |-> 0,merged |-> {},remaining_distinct_aggregators |-> 0,pending_distinct_aggregators |-> {},pending_distinct_mergers |-> {},pending_mergers |-> {},flushed |-> {0, 1, 2},runnable |-> {0, 1, 2},pc |-> (0 :> "check_merge" @@ 1 :> "check_merge" @@ 2 :> "check_merge"),remaining_mergers |-> 3,pending_drainers |-> {},dflushed |-> {0, 1, 2}]),
    ([remaining_normal |-> 0,dmerged |-> {0, 1, 2},remaining_distinct_mergers |-> 0,merged |-> {},remaining_distinct_aggregators |-> 0,pending_distinct_aggregators |-> {},pending_distinct_mergers |-> {},pending_mergers |-> {},flushed |-> {0, 1, 2},runnable |-> {0, 1, 2},pc |-> (0 :> "merging" @@ 1 :> "check_merge" @@ 2 :> "check_merge"),remaining_mergers |-> 3,pending_drainers |-> {},dflushed |-> {0, 1, 2}]),
    ([remaining_normal |-> 0,dmerged |-> {0, 1, 2},remaining_distinct_mergers |-> 0,merged |-> {0},remaining_distinct_aggregators |-> 0,pending_distinct_aggregators |-> {},pending_distinct_mergers |-> {},pending_mergers |-> {},flushed |-> {0, 1, 2},runnable |-> {0, 1, 2},pc |-> (0 :> "check_scan" @@ 1 :> "check_merge" @@ 2 :> "check_merge"),remaining_mergers |-> 2,pending_drainers |-> {},dflushed |-> {0, 1, 2}]),
    ([remaining_normal |-> 0,dmerged |-> {0, 1, 2},remaining_distinct_mergers |-> 0,merged |-> {0},remaining_distinct_aggregators |-> 0,pending_distinct_aggregators |-> {},pending_distinct_mergers |-> {},pending_mergers |-> {},flushed |-> {0, 1, 2},runnable |-> {0, 1, 2},pc |-> (0 :> "check_scan" @@ 1 :> "merging" @@ 2 :> "check_merge"),remaining_mergers |-> 2,pending_drainers |-> {},dflushed |-> {0, 1, 2}]),
    ([remaining_normal |-> 0,dmerged |-> {0, 1, 2},remaining_distinct_mergers |-> 0,merged |-> {0, 1},remaining_distinct_aggregators |-> 0,pending_distinct_aggregators |-> {},pending_distinct_mergers |-> {},pending_mergers |-> {},flushed |-> {0, 1, 2},runnable |-> {0, 1, 2},pc |-> (0 :> "check_scan" @@ 1 :> "check_scan" @@ 2 :> "check_merge"),remaining_mergers |-> 1,pending_drainers |-> {},dflushed |-> {0, 1, 2}]),
    ([remaining_normal |-> 0,dmerged |-> {0, 1, 2},remaining_distinct_mergers |-> 0,merged |-> {0, 1},remaining_distinct_aggregators |-> 0,pending_distinct_aggregators |-> {},pending_distinct_mergers |-> {},pending_mergers |-> {},flushed |-> {0, 1, 2},runnable |-> {0, 1, 2},pc |-> (0 :> "check_scan" @@ 1 :> "check_scan" @@ 2 :> "merging"),remaining_mergers |-> 1,pending_drainers |-> {},dflushed |-> {0, 1, 2}]),
    ([remaining_normal |-> 0,dmerged |-> {0, 1, 2},remaining_distinct_mergers |-> 0,merged |-> {0, 1, 2},remaining_distinct_aggregators |-> 0,pending_distinct_aggregators |-> {},pending_distinct_mergers |-> {},pending_mergers |-> {},flushed |-> {0, 1, 2},runnable |-> {0, 1, 2},pc |-> (0 :> "check_scan" @@ 1 :> "check_scan" @@ 2 :> "check_scan"),remaining_mergers |-> 0,pending_drainers |-> {},dflushed |-> {0, 1, 2}]),
    ([remaining_normal |-> 0,dmerged |-> {0, 1, 2},remaining_distinct_mergers |-> 0,merged |-> {0, 1, 2},remaining_distinct_aggregators |-> 0,pending_distinct_aggregators |-> {},pending_distinct_mergers |-> {},pending_mergers |-> {},flushed |-> {0, 1, 2},runnable |-> {0, 1, 2},pc |-> (0 :> "scanning" @@ 1 :> "check_scan" @@ 2 :> "check_scan"),remaining_mergers |-> 0,pending_drainers |-> {},dflushed |-> {0, 1, 2}]),
    ([remaining_normal |-> 0,dmerged |-> {0, 1, 2},remaining_distinct_mergers |-> 0,merged |-> {0, 1, 2},remaining_distinct_aggregators |-> 0,pending_distinct_aggregators |-> {},pending_distinct_mergers |-> {},pending_mergers |-> {},flushed |-> {0, 1, 2},runnable |-> {0, 1, 2},pc |-> (0 :> "done" @@ 1 :> "check_scan" @@ 2 :> "check_scan"),remaining_mergers |-> 0,pending_drainers |-> {},dflushed |-> {0, 1, 2}]),
    ([remaining_normal |-> 0,dmerged |-> {0, 1, 2},remaining_distinct_mergers |-> 0,merged |-> {0, 1, 2},remaining_distinct_aggregators |-> 0,pending_distinct_aggregators |-> {},pending_distinct_mergers |-> {},pending_mergers |-> {},flushed |-> {0, 1, 2},runnable |-> {0, 1, 2},pc |-> (0 :> "done" @@ 1 :> "scanning" @@ 2 :> "check_scan"),remaining_mergers |-> 0,pending_drainers |-> {},dflushed |-> {0, 1, 2}]),
    ([remaining_normal |-> 0,dmerged |-> {0, 1, 2},remaining_distinct_mergers |-> 0,merged |-> {0, 1, 2},remaining_distinct_aggregators |-> 0,pending_distinct_aggregators |-> {},pending_distinct_mergers |-> {},pending_mergers |-> {},flushed |-> {0, 1, 2},runnable |-> {0, 1, 2},pc |-> (0 :> "done" @@ 1 :> "scanning" @@ 2 :> "scanning"),remaining_mergers |-> 0,pending_drainers |-> {},dflushed |-> {0, 1, 2}]),
    ([remaining_normal |-> 0,dmerged |-> {0, 1, 2},remaining_distinct_mergers |-> 0,merged |-> {0, 1, 2},remaining_distinct_aggregators |-> 0,pending_distinct_aggregators |-> {},pending_distinct_mergers |-> {},pending_mergers |-> {},flushed |-> {0, 1, 2},runnable |-> {0, 1, 2},pc |-> (0 :> "done" @@ 1 :> "scanning" @@ 2 :> "done"),remaining_mergers |-> 0,pending_drainers |-> {},dflushed |-> {0, 1, 2}]),
    ([remaining_normal |-> 0,dmerged |-> {0, 1, 2},remaining_distinct_mergers |-> 0,merged |-> {0, 1, 2},remaining_distinct_aggregators |-> 0,pending_distinct_aggregators |-> {},pending_distinct_mergers |-> {},pending_mergers |-> {},flushed |-> {0, 1, 2},runnable |-> {0, 1, 2},pc |-> (0 :> "done" @@ 1 :> "done" @@ 2 :> "done"),remaining_mergers |-> 0,pending_drainers |-> {},dflushed |-> {0, 1, 2}])
    >>
----


=============================================================================

---- CONFIG HashAggOp_TTrace_1790206294 ----
CONSTANTS
    P = 3
    Distinct = TRUE

INVARIANT
    _inv

CHECK_DEADLOCK
    \* CHECK_DEADLOCK off because of PROPERTY or INVARIANT above.
    FALSE

INIT
    _init

NEXT
    _next

CONSTANT
    _TETrace <- _trace

ALIAS
    _expression
=============================================================================
\* Generated on Wed Sep 23 23:31:42 UTC 2026