------------------------------ MODULE GenScalar ------------------------------
(* Generator for C05: scalar expressions over the two columns of an argument
   table, evaluated by Algebra.EvalE. The argument tables hold EVERY pair over
   the domain (booleans: {NULL, false, true}^2 - the full truth tables; small
   integers: {NULL, 0, 1, 2}^2), so each expression is checked on all inputs.
   The orchestrator places every expression in each evaluation context (folded
   constant, column, under a WHERE selection, inside a CASE branch, in a join
   condition, duplicated for CSE, against a constant argument).               *)
EXTENDS Gen

P == Col(1)
Q == Col(2)

BoolExprs == {
  [n |-> "and",        c |-> "b", e |-> AndE(P, Q)],
  [n |-> "or",         c |-> "b", e |-> OrE(P, Q)],
  [n |-> "not",        c |-> "b", e |-> NotE(P)],
  [n |-> "eq",         c |-> "b", e |-> Eq(P, Q)],
  [n |-> "ne",         c |-> "b", e |-> CmpE("ne", P, Q)],
  [n |-> "distinct",   c |-> "b", e |-> DistinctE(P, Q)],
  [n |-> "notdistinct", c |-> "b", e |-> NotDistinctE(P, Q)],
  [n |-> "isnull",     c |-> "b", e |-> IsNullE(P)],
  [n |-> "and_or_not", c |-> "b", e |-> OrE(AndE(P, Q), NotE(P))],
  [n |-> "demorgan_l", c |-> "b", e |-> NotE(AndE(P, Q))],
  [n |-> "demorgan_r", c |-> "b", e |-> OrE(NotE(P), NotE(Q))],
  [n |-> "and3",       c |-> "b", e |-> AndE(AndE(P, Q), OrE(P, NullB))],
  (* boolean-algebra shapes the optimizer's OR/AND rewrites look for (common conjuncts lifted out of an OR) *)
  [n |-> "absorb_or",   c |-> "b", e |-> OrE(P, AndE(P, Q))],
  [n |-> "absorb_or_r", c |-> "b", e |-> OrE(AndE(Q, P), P)],
  [n |-> "absorb_and",  c |-> "b", e |-> AndE(P, OrE(P, Q))],
  [n |-> "distrib_common", c |-> "b", e |-> OrE(AndE(P, Q), AndE(P, NotE(Q)))],
  [n |-> "distrib_subsumed", c |-> "b", e |-> OrE(AndE(P, Q), AndE(AndE(P, Q), IsNullE(P)))],
  [n |-> "distrib_dup", c |-> "b", e |-> OrE(AndE(P, Q), AndE(P, Q))],
  [n |-> "distrib_three", c |-> "b", e |-> OrE(OrE(AndE(P, Q), AndE(P, IsNullE(Q))), P)],
  [n |-> "or_true",    c |-> "b", e |-> OrE(P, True)],
  [n |-> "and_false",  c |-> "b", e |-> AndE(P, False)],
  [n |-> "or_null",    c |-> "b", e |-> OrE(P, NullB)],
  [n |-> "and_null",   c |-> "b", e |-> AndE(NullB, Q)],
  [n |-> "case_bool",  c |-> "b", e |-> [k |-> "case", whens |-> << [c |-> P, t |-> Q] >>, els |-> NotE(Q)]],
  [n |-> "case_null_when", c |-> "b", e |-> [k |-> "case", whens |-> << [c |-> NullB, t |-> True], [c |-> Q, t |-> P] >>, els |-> False]],
  [n |-> "coalesce_bool", c |-> "b", e |-> [k |-> "coalesce", args |-> <<P, Q, False>>]],
  [n |-> "in_bool",    c |-> "b", e |-> [k |-> "inlist", x |-> P, list |-> <<Q, False>>]] }

A1 == Col(1)
B1 == Col(2)
IntExprs ==
     { [n |-> "cmp_" \o op, c |-> "b", e |-> CmpE(op, A1, B1)] : op \in {"eq", "ne", "lt", "le", "gt", "ge"} }
\cup { [n |-> "arith_" \o op, c |-> "i", e |-> Arith(op, A1, B1)] : op \in {"add", "sub", "mul"} }
\cup { [n |-> "neg",          c |-> "i", e |-> [k |-> "neg", x |-> A1]],
       [n |-> "distinct",     c |-> "b", e |-> DistinctE(A1, B1)],
       [n |-> "notdistinct",  c |-> "b", e |-> NotDistinctE(A1, B1)],
       [n |-> "isnull",       c |-> "b", e |-> IsNullE(A1)],
       [n |-> "notnull",      c |-> "b", e |-> NotNullE(B1)],
       [n |-> "between",      c |-> "b", e |-> [k |-> "between", x |-> A1, lo |-> LitI(1), hi |-> B1]],
       [n |-> "not_between",  c |-> "b", e |-> NotE([k |-> "between", x |-> A1, lo |-> B1, hi |-> LitI(1)])],
       [n |-> "in_list",      c |-> "b", e |-> [k |-> "inlist", x |-> A1, list |-> <<B1, LitI(1)>>]],
       [n |-> "in_list_null", c |-> "b", e |-> [k |-> "inlist", x |-> A1, list |-> <<LitI(1), NullI>>]],
       [n |-> "not_in_list_null", c |-> "b", e |-> NotE([k |-> "inlist", x |-> A1, list |-> <<B1, NullI>>])],
       [n |-> "case_int",     c |-> "i", e |-> [k |-> "case", whens |-> << [c |-> CmpE("lt", A1, B1), t |-> A1] >>, els |-> B1]],
       [n |-> "case_nested",  c |-> "i", e |-> [k |-> "case", whens |-> << [c |-> Eq(A1, LitI(1)), t |-> LitI(10)] >>,
                                                 els |-> [k |-> "case", whens |-> << [c |-> IsNullE(A1), t |-> LitI(7)] >>, els |-> Arith("add", A1, B1)]]],
       [n |-> "case_guard",   c |-> "i", e |-> [k |-> "case", whens |-> << [c |-> IsNullE(B1), t |-> LitI(5)], [c |-> CmpE("gt", B1, LitI(0)), t |-> Arith("mul", A1, B1)] >>, els |-> [k |-> "neg", x |-> A1]]],
       [n |-> "coalesce_int", c |-> "i", e |-> [k |-> "coalesce", args |-> <<A1, B1, LitI(9)>>]],
       [n |-> "coalesce_expr", c |-> "i", e |-> [k |-> "coalesce", args |-> <<Arith("add", A1, B1), A1>>]],
       [n |-> "cmp_expr",     c |-> "b", e |-> CmpE("le", Arith("mul", A1, LitI(2)), Arith("add", B1, LitI(1)))],
       [n |-> "and_cmp",      c |-> "b", e |-> AndE(CmpE("ge", A1, LitI(1)), CmpE("lt", B1, LitI(2)))],
       [n |-> "or_cmp_null",  c |-> "b", e |-> OrE(CmpE("eq", A1, LitI(0)), IsNullE(B1))],
       [n |-> "not_cmp",      c |-> "b", e |-> NotE(CmpE("lt", A1, B1))],
       [n |-> "absorb_or_cmp", c |-> "b", e |-> OrE(CmpE("ge", A1, LitI(1)), AndE(CmpE("ge", A1, LitI(1)), CmpE("lt", B1, LitI(2))))],
       [n |-> "distrib_cmp",  c |-> "b", e |-> OrE(AndE(CmpE("ge", A1, LitI(1)), CmpE("lt", B1, LitI(2))), AndE(CmpE("ge", A1, LitI(1)), IsNullE(B1)))],
       [n |-> "distrib_cmp_subsumed", c |-> "b", e |-> OrE(AndE(CmpE("ge", A1, LitI(1)), CmpE("lt", B1, LitI(2))),
                                                            AndE(AndE(CmpE("ge", A1, LitI(1)), CmpE("lt", B1, LitI(2))), Eq(A1, B1)))] }

VARIABLE c
Init == c \in { [dom |-> "bool", n |-> x.n, c |-> x.c, e |-> x.e] : x \in BoolExprs }
          \cup { [dom |-> "int", n |-> x.n, c |-> x.c, e |-> x.e] : x \in IntExprs }
Next == UNCHANGED c
Emit == PrintT(ToJson(c))
=============================================================================
