------------------------------ MODULE TraceArith ------------------------------
(* Verdict-style validation of integer arithmetic observations (C12).
   Lines: [id, kind = "simple" | "divrem" | "sum", op, rty = [w, s], a, b, out, outq, outr, vs] *)
EXTENDS IntArith, TLC, Json, IOUtils
Rec == ndJsonDeserialize(IOEnv.TRACE)
VARIABLE l
OK(r) == CASE r.kind = "simple" -> SimpleOK(r.op, r.rty, r.a, r.b, r.out)
           [] r.kind = "divrem" -> DivOK(r.rty, r.a, r.b, r.outq, r.outr)
           [] r.kind = "sum"    -> SumOK(r.rty, r.vs, r.out)
Exp(r) == CASE r.kind = "simple" -> (IF InRange(r.rty, Exact(r.op, r.a, r.b)) THEN [k |-> "val", v |-> Exact(r.op, r.a, r.b)] ELSE [k |-> "err", v |-> Zero])
            [] r.kind = "sum" -> (IF InRange(r.rty, SumAll(r.vs)) THEN [k |-> "val", v |-> SumAll(r.vs)] ELSE [k |-> "err", v |-> Zero])
            [] OTHER -> [k |-> "divrel", v |-> Zero]
TInit == l = 1
TNext == /\ l <= Len(Rec) /\ l' = l + 1
         /\ IF OK(Rec[l]) THEN TRUE ELSE PrintT(ToJson([mismatch |-> Rec[l].id, exp |-> Exp(Rec[l])]))
TSpec == TInit /\ [][TNext]_l
Accepted == TLCGet("stats").diameter - 1 = Len(Rec)
=============================================================================
