-------------------------------- MODULE Faults --------------------------------
(* C19: the fault model over a file seen as a map of named byte regions
   (magic, footer length, thrift footer, per page: header and data, dictionary
   header and data). A fault plan is one of
     truncate(at)      keep the first `at` bytes          (every region boundary +-1, 0, and length classes)
     flip(pos, how)    corrupt one byte                   (every byte of footer / page headers; sampled in data)
     lie(field, class) rewrite one numeric metadata field (negative, zero, off by one, 2^31-1, 2^63-1)
   The generator's states ARE the fault plans for a file whose region map is
   given (as a sequence of [name, start, end]); the admissible outcomes are those
   of Session.tla: rows or error, never panic / abort / timeout / out-of-memory. *)
EXTENDS Naturals, Sequences, FiniteSets, TLC, Json, IOUtils

Regions == ndJsonDeserialize(IOEnv.REGIONS)[1].regions      \* << [name, s, e] >>
FileLen == ndJsonDeserialize(IOEnv.REGIONS)[1].len
CONSTANT SampleK

Structural(r) == \E suf \in {"header", "footer", "footer_len", "magic_head", "magic_tail"} :
                    LET n == Len(r.name) IN n >= Len(suf) /\ SubSeq(r.name, n - Len(suf) + 1, n) = suf
Hows == {"bit0", "zero", "ff", "inc"}
LieFields == {"file.num_rows", "file.footer_len", "file.version", "schema.num_children", "rg.num_rows", "rg.total_byte_size",
              "chunk.num_values", "chunk.total_compressed_size", "chunk.total_uncompressed_size", "chunk.data_page_offset",
              "chunk.dictionary_page_offset", "chunk.file_offset", "page.num_values", "page.uncompressed_size",
              "page.compressed_size", "page.def_levels_len", "dict.num_values"}
LieClasses == {"neg", "zero", "plus1", "minus1", "i32max", "i64max"}

TruncPoints == {0, 1, 3, 4, 5, 8, FileLen - 1, FileLen - 4, FileLen - 5, FileLen - 8, FileLen - 9}
               \cup UNION { {Regions[i].s - 1, Regions[i].s, Regions[i].s + 1} : i \in DOMAIN Regions }

VARIABLE plan
Init == \/ \E at \in {p \in TruncPoints : p >= 0 /\ p < FileLen} : plan = [k |-> "truncate", at |-> at, how |-> "", field |-> "", cls |-> ""]
        \/ \E i \in DOMAIN Regions : \E pos \in Regions[i].s..(Regions[i].e - 1) : \E h \in Hows :
              /\ Structural(Regions[i]) \/ (pos - Regions[i].s) % 7 = 0          \* data regions: every 7th byte
              /\ plan = [k |-> "flip", at |-> pos, how |-> h, field |-> "", cls |-> ""]
        \/ \E fld \in LieFields, c \in LieClasses : plan = [k |-> "lie", at |-> 0, how |-> "", field |-> fld, cls |-> c]
        (* the footer length relative to the FILE size (the reader seeks to size - 8 - len) *)
        \/ \E c \in {"fsize", "fsize_m1", "fsize_m4", "fsize_m7", "fsize_m8", "fsize_m9"} :
              plan = [k |-> "lie", at |-> 0, how |-> "", field |-> "file.footer_len", cls |-> c]
        (* length streams of delta-encoded string pages: a negative length made up for by its neighbour (the sum still matches
           the data bytes), a negative one, a huge one, an off-by-one *)
        \/ \E st \in {"length", "prefix", "suffix"}, c \in {"neg_compensated", "neg", "huge", "plus1_first"} :
              plan = [k |-> "delta_lie", at |-> 0, how |-> "", field |-> st, cls |-> c]
Next == UNCHANGED plan
(* quick tiers take every SampleK-th corrupted byte position (deterministic, so recorded findings replay in every run) *)
Emit == (SampleK = 1 \/ plan.k # "flip" \/ plan.at % SampleK = 0) => PrintT(ToJson(plan))
=============================================================================
