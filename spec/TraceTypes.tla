------------------------------ MODULE TraceTypes ------------------------------
(* Verdict-style validation for C18. Lines:
   [id, kind = "agree" (three-way agreement of one statement) | "determinism" (ctx = types of the same expression in
    different contexts) | "unify" (t = result type, branches = input types of a UNION / VALUES) | "class" (cls, t),
    o, ctx, t, branches, cls, outcome]                                                                         *)
EXTENDS Types, Json, IOUtils
Rec == ndJsonDeserialize(IOEnv.TRACE)
VARIABLE l
Why(r) ==
  CASE r.kind = "agree" -> IF r.outcome # "rows" THEN (IF r.outcome = "error" THEN "ok" ELSE "outcome") ELSE IF TypesEq(r.o) THEN "ok" ELSE "announced-vs-produced"
    [] r.kind = "determinism" -> IF AllSame(r.ctx) THEN "ok" ELSE "context-dependent-type"
    [] r.kind = "unify" -> IF r.outcome = "error" THEN "ok" ELSE IF r.outcome # "rows" THEN "outcome"
                           ELSE IF \A i \in DOMAIN r.branches : CanHold(r.t, r.branches[i]) THEN "ok" ELSE "unified-type-cannot-hold-branch"
    [] r.kind = "class" -> IF r.outcome # "rows" THEN "ok" ELSE IF \E i \in DOMAIN r.cls : r.cls[i] = r.t.b THEN "ok" ELSE "result-class"
TInit == l = 1
TNext == /\ l <= Len(Rec) /\ l' = l + 1
         /\ LET why == Why(Rec[l]) IN IF why = "ok" THEN TRUE ELSE PrintT(ToJson([mismatch |-> Rec[l].id, why |-> why]))
TSpec == TInit /\ [][TNext]_l
Accepted == TLCGet("stats").diameter - 1 = Len(Rec)
=============================================================================
