------------------------------- MODULE TraceCsv -------------------------------
(* Verdict-style validation of CSV reads (C17). Lines: [id, text (code points), obs], where
   obs = [outcome, gen, names, types, rows]; and pair lines [id, a, b] for the same file read
   under two read-buffer / batch / partition configurations (rows must not depend on them). *)
EXTENDS Csv, Json, IOUtils
Rec == ndJsonDeserialize(IOEnv.TRACE)
VARIABLE l
Why(r) ==
  IF "a" \in DOMAIN r THEN
       (IF r.a.outcome = r.b.outcome /\ r.a.types = r.b.types /\ r.a.names = r.b.names /\ r.a.rows = r.b.rows THEN "ok" ELSE "config-dependent")
  ELSE IF r.obs.outcome = "error" THEN (IF ErrorOK(r.text) THEN "ok" ELSE "outcome")
  ELSE IF r.obs.outcome # "rows" THEN "outcome"
  ELSE IF ReadOK(r.text, r.obs) THEN "ok" ELSE "records"
TInit == l = 1
TNext == /\ l <= Len(Rec) /\ l' = l + 1
         /\ LET why == Why(Rec[l]) IN IF why = "ok" THEN TRUE ELSE PrintT(ToJson([mismatch |-> Rec[l].id, why |-> why]))
TSpec == TInit /\ [][TNext]_l
Accepted == TLCGet("stats").diameter - 1 = Len(Rec)
=============================================================================
