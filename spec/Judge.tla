------------------------------- MODULE Judge -------------------------------
(* Relations between what the engine was observed to return and the reference
   meaning. The judge is a relation, not a function: where SQL leaves the
   result open (row order without ORDER BY, ties under LIMIT, which rows a
   LIMIT without ORDER BY keeps) every legal outcome is admitted.            *)
EXTENDS Algebra

(* ---------------------------------------------------------------- rows -- *)
SortedBy(rows, keys, db) ==
  \A i \in 1..(Len(rows) - 1) : RowLe(keys, <<>>, db, rows[i], rows[i + 1])

ExpectLen(n, off, total) == Min2(n, Max2(0, total - off))

(* obs is rows off+1..off+n of SOME sorted arrangement of ref *)
SliceOfSorted(obs, ref, keys, n, off, db) ==
  LET S == SortRows(keys, <<>>, db, ref)
  IN /\ Len(obs) = ExpectLen(n, off, Len(ref))
     /\ SubBag(obs, ref)
     /\ \A i \in 1..Len(obs) : RowKeyEq(keys, <<>>, db, obs[i], S[off + i])

(* LIMIT without ORDER BY: any n rows of the input (after skipping any off) *)
SomeSubBag(obs, ref, n, off) ==
  /\ Len(obs) = ExpectLen(n, off, Len(ref))
  /\ SubBag(obs, ref)

(* How the top-level shape of q determines the judgement. *)
Mode(q) == IF q.k = "sort" THEN "sorted"
           ELSE IF q.k = "limit" /\ q.c.k = "sort" THEN "slice"
           ELSE IF q.k = "limit" THEN "subbag"
           ELSE "bag"

Expected(q, db) ==
  CASE Mode(q) = "sorted" -> EvalQ(q.c, db, <<>>)
    [] Mode(q) = "slice"  -> EvalQ(q.c.c, db, <<>>)
    [] Mode(q) = "subbag" -> EvalQ(q.c, db, <<>>)
    [] OTHER              -> EvalQ(q, db, <<>>)

RowsOK(q, db, obs) ==
  LET ref == Expected(q, db)
  IN CASE Mode(q) = "sorted" -> BagEq(obs, ref) /\ SortedBy(obs, q.keys, db)
       [] Mode(q) = "slice"  -> SliceOfSorted(obs, ref, q.c.keys, q.n, q.off, db)
       [] Mode(q) = "subbag" -> SomeSubBag(obs, ref, q.n, q.off)
       [] OTHER              -> BagEq(obs, ref)

(* --------------------------------------------------------------- types -- *)
(* Type *classes* of expressions: "i" integer, "b" boolean, "t" text,
   "n" non-integer numeric (float / decimal). The property does not promise an
   exact width, so the judge checks the class, and separately that what was
   announced is what was produced (TypesAgree).                              *)
RECURSIVE ClassE(_, _, _, _), ClassQ(_, _, _)
ClassE(e, cls, envc, dbc) ==
  CASE e.k = "col" -> IF e.up = 0 THEN cls[e.i] ELSE envc[Len(envc) - e.up + 1][e.i]
    [] e.k = "lit" -> e.c
    [] e.k \in {"cmp", "and", "or", "not", "isnull", "notnull", "distinct", "notdistinct",
                "inlist", "between", "exists", "insub", "quant"} -> "b"
    [] e.k \in {"arith", "neg"} -> "i"
    [] e.k = "case" -> ClassE(e.whens[1].t, cls, envc, dbc)
    [] e.k = "coalesce" -> ClassE(e.args[1], cls, envc, dbc)
    [] e.k = "scalar" -> ClassQ(e.q, dbc, Append(envc, cls))[1]

AggClass(a, cls, envc, dbc) ==
  CASE a.f \in {"count", "sum"} -> "i"
    [] a.f \in {"avg", "var_pop", "var_samp"} -> "n"
    [] a.f \in {"bool_and", "bool_or"} -> "b"
    [] OTHER -> ClassE(a.x, cls, envc, dbc)

ClassQ(q, dbc, envc) ==
  CASE q.k = "scan" -> dbc[q.t]
    [] q.k = "values" -> q.cols
    [] q.k \in {"filter", "distinct", "sort", "limit"} -> ClassQ(q.c, dbc, envc)
    [] q.k = "project" -> LET c == ClassQ(q.c, dbc, envc)
                          IN [i \in 1..Len(q.es) |-> ClassE(q.es[i], c, envc, dbc)]
    [] q.k = "join" -> LET l == ClassQ(q.l, dbc, envc)
                       IN IF q.jt \in {"semi", "anti"} THEN l
                          ELSE l \o ClassQ(q.r, dbc, IF q.lateral THEN Append(envc, l) ELSE envc)
    [] q.k = "agg" -> LET c == ClassQ(q.c, dbc, envc)
                      IN [i \in 1..Len(q.keys) |-> ClassE(q.keys[i], c, envc, dbc)]
                         \o [i \in 1..Len(q.aggs) |-> AggClass(q.aggs[i], c, envc, dbc)]
                         \o [i \in 1..Len(q.grouping) |-> "i"]
    [] q.k = "union" -> ClassQ(q.l, dbc, envc)
    [] q.k = "with" -> ClassQ(q.c, [n \in (DOMAIN dbc) \cup {q.name} |->
                                      IF n = q.name THEN ClassQ(q.body, dbc, envc) ELSE dbc[n]], envc)

(* Announced = produced: the output schema, the type of every array in every
   batch, and the variant of every value agree (C18).                        *)
TypesAgree(o) ==
  /\ \A b \in DOMAIN o.btypes : o.btypes[b] = o.schema
  /\ \A c \in DOMAIN o.variants : \A v \in DOMAIN o.variants[c] : o.variants[c][v] = o.sbase[c]

=============================================================================
