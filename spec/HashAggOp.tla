------------------------------ MODULE HashAggOp ------------------------------
(* The cross-partition protocol of the hash aggregate operator
   (execution/operators/hash_aggregate/mod.rs), one action per critical section
   under `operator_state.inner.lock()`, with the Rust field names.

   Every partition aggregates its input into partition-local tables; on
   finalize it either (no DISTINCT aggregates) flushes them to the global table
   and goes to Merging, or (DISTINCT aggregates) flushes its distinct
   collections and goes through MergingDistinct -> AggregatingDistinct (which
   flushes the local tables) -> Merging. Merging merges the slice of the global
   table the partition owns; Scanning drains it. Four counters gate the phases:

     remaining_normal                MergingDistinct (and Merging without DISTINCT) wait for 0
     remaining_distinct_mergers      AggregatingDistinct waits for 0
     remaining_distinct_aggregators  Merging (with DISTINCT) waits for 0
     remaining_mergers               Scanning waits for 0

   Abstract data: which partitions have flushed (local tables -> global table;
   distinct collections), merged, drained. The invariants say that every piece
   of work only starts when everything it reads has been completely written;
   `Termination` that no partition is left parked (no lost wake-up).           *)
EXTENDS Naturals, FiniteSets, TLC

CONSTANTS P,          \* number of partitions
          Distinct    \* the aggregate has DISTINCT aggregates

Parts == 0..(P - 1)

VARIABLES
  remaining_normal, remaining_distinct_mergers, remaining_distinct_aggregators, remaining_mergers,
  pending_distinct_mergers, pending_distinct_aggregators, pending_mergers, pending_drainers,   \* parked partitions
  pc,         \* "aggregating" | "check_dmerge" | "dmerging" | "check_dagg" | "dagg" | "check_merge" | "merging" | "check_scan" | "scanning" | "done"
  runnable,   \* partitions the scheduler may poll (a parked partition runs again only when woken)
  dflushed,   \* partitions whose distinct collections are flushed
  dmerged,    \* partitions that merged their slice of the distinct tables
  flushed,    \* partitions whose local aggregate tables are flushed to the global table
  merged      \* partitions that merged their slice of the global table

vars == <<remaining_normal, remaining_distinct_mergers, remaining_distinct_aggregators, remaining_mergers,
          pending_distinct_mergers, pending_distinct_aggregators, pending_mergers, pending_drainers,
          pc, runnable, dflushed, dmerged, flushed, merged>>

Init ==
  /\ remaining_normal = P /\ remaining_distinct_mergers = P /\ remaining_distinct_aggregators = P /\ remaining_mergers = P
  /\ pending_distinct_mergers = {} /\ pending_distinct_aggregators = {} /\ pending_mergers = {} /\ pending_drainers = {}
  /\ pc = [p \in Parts |-> "aggregating"] /\ runnable = Parts
  /\ dflushed = {} /\ dmerged = {} /\ flushed = {} /\ merged = {}

(* poll_finalize_execute: distinct.flush() before the lock; cs: remaining_normal -= 1, (no DISTINCT: table.flush()
   inside the cs), state change, last one wakes the waiters of remaining_normal *)
Finalize(p) ==
  /\ p \in runnable /\ pc[p] = "aggregating"
  /\ remaining_normal' = remaining_normal - 1
  /\ dflushed' = dflushed \cup {p}
  /\ IF Distinct
     THEN /\ pc' = [pc EXCEPT ![p] = "check_dmerge"]
          /\ IF remaining_normal = 1
             THEN runnable' = runnable \cup pending_distinct_mergers /\ pending_distinct_mergers' = {}
             ELSE UNCHANGED <<runnable, pending_distinct_mergers>>
          /\ UNCHANGED <<flushed, pending_mergers>>
     ELSE /\ pc' = [pc EXCEPT ![p] = "check_merge"]
          /\ flushed' = flushed \cup {p}
          /\ IF remaining_normal = 1
             THEN runnable' = runnable \cup pending_mergers /\ pending_mergers' = {}
             ELSE UNCHANGED <<runnable, pending_mergers>>
          /\ UNCHANGED pending_distinct_mergers
  /\ UNCHANGED <<remaining_distinct_mergers, remaining_distinct_aggregators, remaining_mergers,
                 pending_distinct_aggregators, pending_drainers, dmerged, merged>>

(* a gate: cs reading a counter; passes or parks *)
Gate(p, at, counter, next, pend) ==
  /\ p \in runnable /\ pc[p] = at
  /\ IF counter = 0
     THEN pc' = [pc EXCEPT ![p] = next] /\ UNCHANGED runnable
     ELSE runnable' = runnable \ {p} /\ UNCHANGED pc

CheckDistinctMerge(p) ==
  /\ Gate(p, "check_dmerge", remaining_normal, "dmerging", pending_distinct_mergers)
  /\ pending_distinct_mergers' = IF remaining_normal = 0 THEN pending_distinct_mergers ELSE pending_distinct_mergers \cup {p}
  /\ UNCHANGED <<remaining_normal, remaining_distinct_mergers, remaining_distinct_aggregators, remaining_mergers,
                 pending_distinct_aggregators, pending_mergers, pending_drainers, dflushed, dmerged, flushed, merged>>

(* merge_global of the distinct tables outside the lock, then cs: remaining_distinct_mergers -= 1, last one wakes *)
DistinctMergeDone(p) ==
  /\ p \in runnable /\ pc[p] = "dmerging"
  /\ dmerged' = dmerged \cup {p}
  /\ remaining_distinct_mergers' = remaining_distinct_mergers - 1
  /\ IF remaining_distinct_mergers = 1
     THEN runnable' = runnable \cup pending_distinct_aggregators /\ pending_distinct_aggregators' = {}
     ELSE UNCHANGED <<runnable, pending_distinct_aggregators>>
  /\ pc' = [pc EXCEPT ![p] = "check_dagg"]
  /\ UNCHANGED <<remaining_normal, remaining_distinct_aggregators, remaining_mergers, pending_distinct_mergers,
                 pending_mergers, pending_drainers, dflushed, flushed, merged>>

CheckDistinctAgg(p) ==
  /\ Gate(p, "check_dagg", remaining_distinct_mergers, "dagg", pending_distinct_aggregators)
  /\ pending_distinct_aggregators' = IF remaining_distinct_mergers = 0 THEN pending_distinct_aggregators ELSE pending_distinct_aggregators \cup {p}
  /\ UNCHANGED <<remaining_normal, remaining_distinct_mergers, remaining_distinct_aggregators, remaining_mergers,
                 pending_distinct_mergers, pending_mergers, pending_drainers, dflushed, dmerged, flushed, merged>>

(* drain the distinct tables into the local tables, flush them (outside the lock), then
   cs: remaining_distinct_aggregators -= 1, last one wakes the mergers *)
DistinctAggDone(p) ==
  /\ p \in runnable /\ pc[p] = "dagg"
  /\ flushed' = flushed \cup {p}
  /\ remaining_distinct_aggregators' = remaining_distinct_aggregators - 1
  /\ IF remaining_distinct_aggregators = 1
     THEN runnable' = runnable \cup pending_mergers /\ pending_mergers' = {}
     ELSE UNCHANGED <<runnable, pending_mergers>>
  /\ pc' = [pc EXCEPT ![p] = "check_merge"]
  /\ UNCHANGED <<remaining_normal, remaining_distinct_mergers, remaining_mergers, pending_distinct_mergers,
                 pending_distinct_aggregators, pending_drainers, dflushed, dmerged, merged>>

MergeCounter == IF Distinct THEN remaining_distinct_aggregators ELSE remaining_normal
CheckMerge(p) ==
  /\ Gate(p, "check_merge", MergeCounter, "merging", pending_mergers)
  /\ pending_mergers' = IF MergeCounter = 0 THEN pending_mergers ELSE pending_mergers \cup {p}
  /\ UNCHANGED <<remaining_normal, remaining_distinct_mergers, remaining_distinct_aggregators, remaining_mergers,
                 pending_distinct_mergers, pending_distinct_aggregators, pending_drainers, dflushed, dmerged, flushed, merged>>

(* merge_global outside the lock, then cs: remaining_mergers -= 1, last one wakes the drainers *)
MergeDone(p) ==
  /\ p \in runnable /\ pc[p] = "merging"
  /\ merged' = merged \cup {p}
  /\ remaining_mergers' = remaining_mergers - 1
  /\ IF remaining_mergers = 1
     THEN runnable' = runnable \cup pending_drainers /\ pending_drainers' = {}
     ELSE UNCHANGED <<runnable, pending_drainers>>
  /\ pc' = [pc EXCEPT ![p] = "check_scan"]
  /\ UNCHANGED <<remaining_normal, remaining_distinct_mergers, remaining_distinct_aggregators, pending_distinct_mergers,
                 pending_distinct_aggregators, pending_mergers, dflushed, dmerged, flushed>>

CheckScan(p) ==
  /\ Gate(p, "check_scan", remaining_mergers, "scanning", pending_drainers)
  /\ pending_drainers' = IF remaining_mergers = 0 THEN pending_drainers ELSE pending_drainers \cup {p}
  /\ UNCHANGED <<remaining_normal, remaining_distinct_mergers, remaining_distinct_aggregators, remaining_mergers,
                 pending_distinct_mergers, pending_distinct_aggregators, pending_mergers, dflushed, dmerged, flushed, merged>>

ScanDone(p) ==
  /\ p \in runnable /\ pc[p] = "scanning"
  /\ pc' = [pc EXCEPT ![p] = "done"]
  /\ UNCHANGED <<remaining_normal, remaining_distinct_mergers, remaining_distinct_aggregators, remaining_mergers,
                 pending_distinct_mergers, pending_distinct_aggregators, pending_mergers, pending_drainers,
                 runnable, dflushed, dmerged, flushed, merged>>

Step(p) == \/ Finalize(p) \/ CheckDistinctMerge(p) \/ DistinctMergeDone(p) \/ CheckDistinctAgg(p) \/ DistinctAggDone(p)
           \/ CheckMerge(p) \/ MergeDone(p) \/ CheckScan(p) \/ ScanDone(p)
Next == \E p \in Parts : Step(p)
Spec == Init /\ [][Next]_vars /\ \A p \in Parts : WF_vars(Step(p))

(* ------------------------------- properties ------------------------------- *)
TypeOK == /\ remaining_normal \in 0..P /\ remaining_distinct_mergers \in 0..P
          /\ remaining_distinct_aggregators \in 0..P /\ remaining_mergers \in 0..P
(* each piece of work reads only completely written inputs *)
DistinctMergeReadsAllFlushes == \A p \in Parts : pc[p] = "dmerging" => dflushed = Parts
DistinctAggReadsAllMerges    == \A p \in Parts : pc[p] = "dagg" => dmerged = Parts
MergeReadsAllFlushes         == \A p \in Parts : pc[p] = "merging" => flushed = Parts
ScanReadsAllMerges           == \A p \in Parts : pc[p] = "scanning" => merged = Parts
(* a parked partition is not runnable, a runnable one is not parked *)
ParkedDisjoint == (pending_distinct_mergers \cup pending_distinct_aggregators \cup pending_mergers \cup pending_drainers) \cap runnable = {}
Termination == <>(\A p \in Parts : pc[p] = "done")
=============================================================================
