----------------------------- MODULE SessionJudge -----------------------------
(* Constant-level judgement shared by Session.tla and TraceSession.tla. *)
EXTENDS Naturals, Sequences

Outcomes == {"rows", "error"}
(* the judgement used by trace validation *)
SubmissionOK(outcome, pre, post, probe) ==
  /\ outcome \in Outcomes
  /\ (outcome = "error") => (pre = post)
  /\ probe \in Outcomes
=============================================================================
