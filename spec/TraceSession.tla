---------------------------- MODULE TraceSession ----------------------------
(* Verdict-style validation for C15 / C19: one submitted text (or one faulted
   file read) per line: [id, outcome, pre, post, probe]. pre/post are the
   session's projected state rendered canonically (a string), so equality is
   the "error changes nothing" clause of Session.tla.                         *)
EXTENDS SessionJudge, TLC, Json, IOUtils
Rec == ndJsonDeserialize(IOEnv.TRACE)
VARIABLE l
Why(r) == IF r.outcome \notin Outcomes THEN "outcome"
          ELSE IF r.outcome = "error" /\ r.pre # r.post THEN "state-changed-by-failed-statement"
          ELSE IF r.probe \notin Outcomes THEN "session-dead"
          ELSE "ok"
TInit == l = 1
TNext == /\ l <= Len(Rec) /\ l' = l + 1
         /\ LET why == Why(Rec[l]) IN IF why = "ok" THEN TRUE ELSE PrintT(ToJson([mismatch |-> Rec[l].id, why |-> why]))
TSpec == TInit /\ [][TNext]_l
Accepted == TLCGet("stats").diameter - 1 = Len(Rec)
=============================================================================
