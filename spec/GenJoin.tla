------------------------------- MODULE GenJoin -------------------------------
(* Generator for C06: every join kind reachable from SQL x condition shapes,
   over tables A(a,b) (columns 1,2) and B(a,b) (columns 3,4 of the joined row);
   and every small table. The initial states ARE the cases.                  *)
EXTENDS Gen

CONSTANTS What, MaxRows, MaxVal

A == Scan("A")
Bt == Scan("B")

Conds == {
  [n |-> "true",     e |-> True],
  [n |-> "eq1",      e |-> Eq(Col(1), Col(3))],
  [n |-> "eq2",      e |-> AndE(Eq(Col(1), Col(3)), Eq(Col(2), Col(4)))],
  [n |-> "eq_lt",    e |-> AndE(Eq(Col(1), Col(3)), CmpE("lt", Col(2), Col(4)))],
  [n |-> "lt",       e |-> CmpE("lt", Col(1), Col(3))],
  [n |-> "ne",       e |-> CmpE("ne", Col(1), Col(3))],
  [n |-> "exprkey",  e |-> Eq(Arith("add", Col(1), LitI(1)), Col(3))],
  [n |-> "eq_or",    e |-> OrE(Eq(Col(1), Col(3)), Eq(Col(2), Col(4)))],
  (* an OR whose branches mention different sides: a single-table branch next to an AND over both tables - the shapes the
     optimizer derives per-table filters from *)
  [n |-> "or_mixed",   e |-> OrE(Eq(Col(4), LitI(1)), AndE(Eq(Col(1), LitI(1)), Eq(Col(4), LitI(0))))],
  [n |-> "or_mixed_r", e |-> OrE(AndE(Eq(Col(1), LitI(1)), Eq(Col(4), LitI(0))), Eq(Col(4), LitI(1)))],
  [n |-> "or_mixed_3", e |-> OrE(OrE(AndE(Eq(Col(1), LitI(0)), Eq(Col(3), LitI(1))), Eq(Col(2), LitI(1))), AndE(Eq(Col(1), Col(3)), IsNullE(Col(4))))],
  [n |-> "notdist",  e |-> NotDistinctE(Col(1), Col(3))],
  [n |-> "eq_rconst", e |-> AndE(Eq(Col(1), Col(3)), Eq(Col(4), LitI(1)))],
  [n |-> "eq_lconst", e |-> AndE(Eq(Col(1), Col(3)), Eq(Col(2), LitI(1)))],
  [n |-> "eq_lnull", e |-> AndE(Eq(Col(1), Col(3)), IsNullE(Col(2)))],
  [n |-> "cross_eq", e |-> Eq(Col(1), Col(4))],
  [n |-> "false",    e |-> False] }

JTs == {"inner", "left", "right", "semi", "anti"}

Plain == { [tag |-> <<jt, c.n>>, q |-> Join(jt, A, Bt, c.e, 2, 2)] : jt \in JTs, c \in Conds }
         \cup { [tag |-> <<"cross", "none">>, q |-> Join("cross", A, Bt, True, 2, 2)] }

(* lateral: the right side is evaluated per left row (up = 1 is the left row) *)
LatR == Filter(Bt, Eq(Col(1), Outer(1, 1)))
LatR2 == Filter(Bt, CmpE("lt", Col(2), Outer(1, 2)))
Lateral == { [tag |-> <<"lateral_cross", "eq1">>, q |-> LatJoin("cross", A, LatR, True, 2, 2)],
             [tag |-> <<"lateral_cross", "lt2">>, q |-> LatJoin("cross", A, LatR2, True, 2, 2)],
             [tag |-> <<"lateral_left", "eq1">>, q |-> LatJoin("left", A, LatR, True, 2, 2)],
             [tag |-> <<"lateral_inner", "lt2_eq">>, q |-> LatJoin("inner", A, LatR2, Eq(Col(1), Col(3)), 2, 2)] }

(* the joins subqueries compile to: IN / NOT IN (mark), EXISTS / NOT EXISTS (semi/anti) *)
BFirst == Project(Bt, <<Col(1)>>)
Sub == {
  [tag |-> <<"mark", "in_where">>,     q |-> Filter(A, InSubE(Col(1), BFirst))],
  [tag |-> <<"mark", "notin_where">>,  q |-> Filter(A, NotE(InSubE(Col(1), BFirst)))],
  [tag |-> <<"mark", "in_select">>,    q |-> Project(A, <<Col(1), InSubE(Col(1), BFirst)>>)],
  [tag |-> <<"mark", "in_or">>,        q |-> Filter(A, OrE(InSubE(Col(1), BFirst), Eq(Col(2), LitI(1))))],
  [tag |-> <<"semi", "exists_corr">>,  q |-> Filter(A, ExistsE(Filter(Bt, Eq(Col(1), Outer(1, 1)))))],
  [tag |-> <<"anti", "notexists_corr">>, q |-> Filter(A, NotE(ExistsE(Filter(Bt, Eq(Col(1), Outer(1, 1))))))],
  [tag |-> <<"anti", "notexists_lt">>, q |-> Filter(A, NotE(ExistsE(Filter(Bt, CmpE("lt", Col(1), Outer(1, 1))))))] }

(* joins under a filter / of three inputs: the composition most prone to planner mix-ups *)
Three == {
  [tag |-> <<"where", "cross_or_mixed">>,
   q |-> Filter(Join("cross", A, Bt, True, 2, 2), OrE(Eq(Col(4), LitI(1)), AndE(Eq(Col(1), LitI(1)), Eq(Col(4), LitI(0)))))],
  [tag |-> <<"where", "cross_or_mixed_r">>,
   q |-> Filter(Join("cross", A, Bt, True, 2, 2), OrE(AndE(Eq(Col(1), LitI(1)), Eq(Col(4), LitI(0))), Eq(Col(4), LitI(1))))],
  [tag |-> <<"where", "inner_or_mixed">>,
   q |-> Filter(Join("inner", A, Bt, Eq(Col(1), Col(3)), 2, 2), OrE(Eq(Col(2), LitI(1)), AndE(Eq(Col(4), LitI(1)), Eq(Col(2), LitI(0)))))],
  [tag |-> <<"three", "inner_left">>,
   q |-> Join("left", Join("inner", A, Bt, Eq(Col(1), Col(3)), 2, 2), Scan("A"), Eq(Col(4), Col(5)), 4, 2)],
  [tag |-> <<"three", "left_inner">>,
   q |-> Join("inner", Join("left", A, Bt, Eq(Col(1), Col(3)), 2, 2), Scan("A"), Eq(Col(2), Col(6)), 4, 2)],
  [tag |-> <<"three", "left_where_right">>,
   q |-> Filter(Join("left", A, Bt, Eq(Col(1), Col(3)), 2, 2), IsNullE(Col(3)))],
  [tag |-> <<"three", "right_where_left">>,
   q |-> Filter(Join("right", A, Bt, Eq(Col(1), Col(3)), 2, 2), OrE(IsNullE(Col(1)), Eq(Col(2), LitI(1))))] }

(* inequality joins whose right side is estimated small (an ungrouped aggregate, a VALUES list):
   the optimizer swaps the sides, which must mirror the comparison operator *)
MinB == [k |-> "agg", c |-> Bt, keys |-> <<>>, aggs |-> << [f |-> "min", x |-> Col(1), star |-> FALSE, dist |-> FALSE, filt |-> NoneE] >>,
         gkind |-> "plain", sets |-> << <<>> >>, grouping |-> <<>>]
Vals2 == [k |-> "values", rows |-> << <<V(1)>>, <<V(0)>> >>, cols |-> <<"i">>]
Swap == { [tag |-> <<"swap", op \o "_agg">>, q |-> Join("inner", A, MinB, CmpE(op, Col(1), Col(3)), 2, 1)] : op \in {"lt", "ge"} }
   \cup { [tag |-> <<"swap", op \o "_values">>, q |-> Join("inner", A, Vals2, CmpE(op, Col(2), Col(3)), 2, 1)] : op \in {"lt", "le", "gt"} }
   \cup { [tag |-> <<"swap", "chain3">>,
           q |-> Join("inner", Join("inner", A, Bt, CmpE("lt", Col(1), Col(3)), 2, 2), Scan("A"), CmpE("lt", Col(4), Col(5)), 4, 2)] }

Queries == Plain \cup Lateral \cup Sub \cup Three \cup Swap

VARIABLE c
Init == IF What = "queries" THEN c \in Queries
        ELSE c \in {[rows |-> t] : t \in Tables(2, MaxRows, MaxVal)}
Next == UNCHANGED c
Emit == PrintT(ToJson(c))
=============================================================================
