--------------------------------- MODULE Csv ---------------------------------
(* C17: what a CSV / TSV text denotes. Text is a sequence of code points.
   The RFC-4180 recogniser is an explicit state machine, parameterised by the
   dialect (delimiter, quote); a file read in chunks is the same machine fed
   chunk by chunk with its state carried over.

   The reader infers the dialect (8 candidates), whether the first record is a
   header, and per column the narrowest of boolean < integer < float < text
   fitting the values; the empty field is NULL. The judgement is relative to
   SOME admissible inference (the property speaks of "the dialect and header
   decision the reader infers"), but the records, fields, NULLs and the
   narrowest-type rule are fixed by that choice.                               *)
EXTENDS Integers, Sequences, FiniteSets, TLC

LF == 10  CR == 13
Dialects == { [delim |-> d, quote |-> q] : d \in {44, 124, 59, 9}, q \in {34, 39} }

(* ---- the recogniser: state = [st, fld, rec, out]
        st \in {"start", "fstart", "infield", "quoted", "qq", "cr"}              *)
S0 == [st |-> "start", fld |-> <<>>, rec |-> <<>>, out |-> <<>>]
EndField(s)  == [s EXCEPT !.rec = Append(s.rec, s.fld), !.fld = <<>>, !.st = "fstart"]
EndRecord(s) == [st |-> "start", fld |-> <<>>, rec |-> <<>>, out |-> Append(s.out, Append(s.rec, s.fld))]

RECURSIVE Step(_, _, _)
Step(s, c, dl) ==
  CASE s.st \in {"start", "fstart"} ->
         IF c = dl.quote THEN [s EXCEPT !.st = "quoted"]
         ELSE IF c = dl.delim THEN EndField(s)
         ELSE IF c = LF THEN (IF s.st = "start" THEN s ELSE EndRecord(s))      \* blank line skipped
         ELSE IF c = CR THEN (IF s.st = "start" THEN s ELSE [EndRecord(s) EXCEPT !.st = "cr"])
         ELSE [s EXCEPT !.st = "infield", !.fld = <<c>>]
    [] s.st = "infield" ->
         IF c = dl.delim THEN EndField(s)
         ELSE IF c = LF THEN EndRecord(s)
         ELSE IF c = CR THEN [EndRecord(s) EXCEPT !.st = "cr"]
         ELSE [s EXCEPT !.fld = Append(@, c)]
    [] s.st = "quoted" ->
         IF c = dl.quote THEN [s EXCEPT !.st = "qq"] ELSE [s EXCEPT !.fld = Append(@, c)]
    [] s.st = "qq" ->
         IF c = dl.quote THEN [s EXCEPT !.st = "quoted", !.fld = Append(@, c)]
         ELSE IF c = dl.delim THEN EndField(s)
         ELSE IF c = LF THEN EndRecord(s)
         ELSE IF c = CR THEN [EndRecord(s) EXCEPT !.st = "cr"]
         ELSE [s EXCEPT !.st = "infield", !.fld = Append(@, c)]                \* lenient; never generated
    [] s.st = "cr" ->
         IF c = LF THEN [s EXCEPT !.st = "start"] ELSE Step([s EXCEPT !.st = "start"], c, dl)

RECURSIVE FeedFrom(_, _, _, _)
FeedFrom(s, t, i, dl) == IF i > Len(t) THEN s ELSE FeedFrom(Step(s, t[i], dl), t, i + 1, dl)
Finish(s) == IF s.st \in {"start", "cr"} THEN s.out ELSE Append(s.out, Append(s.rec, s.fld))

Records(t, dl) == Finish(FeedFrom(S0, t, 1, dl))
(* chunked reading: the machine's state is carried from chunk to chunk *)
RECURSIVE FeedChunks(_, _, _)
FeedChunks(s, chunks, dl) == IF chunks = <<>> THEN s ELSE FeedChunks(FeedFrom(s, Head(chunks), 1, dl), Tail(chunks), dl)
RecordsChunked(chunks, dl) == Finish(FeedChunks(S0, chunks, dl))

(* ---- field classification (the vocabulary the generator draws from is classified by shape) ---- *)
IsDigit(c) == c >= 48 /\ c <= 57
AllDigits(f) == f # <<>> /\ \A i \in DOMAIN f : IsDigit(f[i])
Unsigned(f) == IF f # <<>> /\ f[1] \in {43, 45} THEN Tail(f) ELSE f
IsBoolF(f)  == f \in { <<116, 114, 117, 101>>, <<102, 97, 108, 115, 101>> }      \* "true", "false"
IsIntF(f)   == AllDigits(Unsigned(f)) /\ Len(Unsigned(f)) <= 9
IsFloatF(f) == LET u == Unsigned(f) dots == {i \in DOMAIN u : u[i] = 46}
               IN IsIntF(f) \/ (\E i \in dots : dots = {i} /\ i >= 2 /\ i < Len(u)
                                   /\ AllDigits(SubSeq(u, 1, i - 1)) /\ AllDigits(SubSeq(u, i + 1, Len(u))) /\ Len(u) <= 9)
Rank(ty) == CASE ty = "Boolean" -> 1 [] ty = "Int64" -> 2 [] ty = "Float64" -> 3 [] ty = "Utf8" -> 4
Fits(f, ty) == f = <<>> \/ (CASE ty = "Boolean" -> IsBoolF(f) [] ty = "Int64" -> IsIntF(f) [] ty = "Float64" -> IsFloatF(f) [] ty = "Utf8" -> TRUE)
(* narrowest type fitting all values of a column; an all-empty column may be given any type *)
Narrowest(vals, ty) ==
  /\ \A i \in DOMAIN vals : Fits(vals[i], ty)
  /\ \/ \A i \in DOMAIN vals : vals[i] = <<>>
     \/ \A t2 \in {"Boolean", "Int64", "Float64", "Utf8"} : Rank(t2) < Rank(ty) => \E i \in DOMAIN vals : ~Fits(vals[i], t2)

(* ---- typed cell values, in the shape the orchestrator transports them:
        <<"n">> NULL | <<"b", 0|1>> | <<"i", n>> | <<"f", num, den>> | <<"t">> \o code points ---- *)
RECURSIVE DigVal(_)
DigVal(ds) == IF ds = <<>> THEN 0 ELSE DigVal(SubSeq(ds, 1, Len(ds) - 1)) * 10 + (ds[Len(ds)] - 48)
RECURSIVE Gcd(_, _), Pow10(_)
Gcd(a, b) == IF b = 0 THEN a ELSE Gcd(b, a % b)
Pow10(n) == IF n = 0 THEN 1 ELSE 10 * Pow10(n - 1)
IntVal(f) == LET v == DigVal(Unsigned(f)) IN IF f[1] = 45 THEN -v ELSE v
FloatVal(f) ==
  LET u == Unsigned(f)
      dots == {i \in DOMAIN u : u[i] = 46}
      k == IF dots = {} THEN 0 ELSE Len(u) - (CHOOSE i \in dots : TRUE)
      digs == SelectSeq(u, LAMBDA c : c # 46)
      num == DigVal(digs)  den == Pow10(k)  g == IF num = 0 THEN den ELSE Gcd(num, den)
      sgn == IF f[1] = 45 THEN -1 ELSE 1
  IN <<"f", sgn * (num \div g), den \div g>>
Cell(f, ty) ==
  IF f = <<>> THEN <<"n">>
  ELSE CASE ty = "Boolean" -> <<"b", IF f = <<116, 114, 117, 101>> THEN 1 ELSE 0>>
         [] ty = "Int64"   -> <<"i", IntVal(f)>>
         [] ty = "Float64" -> FloatVal(f)
         [] ty = "Utf8"    -> <<"t">> \o f

(* ---- the judgement ---- *)
ColNames(n) == [i \in 1..n |-> i - 1]           \* generated names column0.. are transported as their index
Width(recs) == Len(recs[1])
Rect(recs) == recs # <<>> /\ \A i \in DOMAIN recs : Len(recs[i]) = Width(recs)

(* obs = [names = <<name code points>> or generated (gen = TRUE), types, rows = << <<cell>> >>] *)
Explains(t, dl, hdr, obs) ==
  LET recs == Records(t, dl) IN
  /\ Rect(recs) /\ Width(recs) = Len(obs.types)
  /\ LET data == IF hdr THEN Tail(recs) ELSE recs
         col(j) == [i \in 1..Len(data) |-> data[i][j]]
     IN /\ hdr = ~obs.gen
        /\ hdr => (recs[1] = obs.names)
        /\ \A j \in 1..Width(recs) : Narrowest(col(j), obs.types[j])
        /\ Len(obs.rows) = Len(data)
        /\ \A i \in 1..Len(data) : \A j \in 1..Width(recs) : obs.rows[i][j] = Cell(data[i][j], obs.types[j])

(* row ORDER within one file is the file's; with several partitions a single file is still read in order.
   Some admissible inference (dialect, header) must explain the observation. Pruning that cannot change the
   verdict: the header decision is visible in the observation (generated column names), a dialect whose
   delimiter does not occur in the text yields one column, and two dialects differing only in a quote
   character that does not occur in the text denote the same records.                                   *)
Occurs(t, c) == \E i \in DOMAIN t : t[i] = c
Candidates(t, obs) ==
  { dl \in Dialects : /\ (Len(obs.types) = 1 \/ Occurs(t, dl.delim))
                       /\ (Occurs(t, dl.quote) \/ dl.quote = 34 \/ Occurs(t, 34)) }
ReadOK(t, obs) == \E dl \in Candidates(t, obs) : Explains(t, dl, ~obs.gen, obs)
(* An error outcome is admissible relative to the inferred dialect exactly when, under SOME dialect the reader may have
   inferred, the text is not a well-formed table: its records do not all have the same number of fields. (The dialect the
   reader chose is not observable when it fails; a text that is rectangular under every candidate dialect must be read.) *)
ErrorOK(t) == \E dl \in Dialects : LET recs == Records(t, dl) IN recs # <<>> /\ ~Rect(recs)
=============================================================================
