----------------------------- MODULE SortMergeOp -----------------------------
(* The cross-partition protocol of the global sort operator
   (execution/operators/sort/{global_sort,merge_queue}.rs), one action per
   critical section under `MergeQueue.inner.lock()`, with the Rust field names.

   Every partition collects and sorts its input locally; on finalize it adds its
   sorted blocks (0..MaxBlocks of them) to the queue as runs and decrements
   `remaining_collection_count`. Then all partitions repeatedly take two runs,
   merge them outside the lock, and push the result back, waking everybody.
   A partition that finds fewer than two runs parks - unless the queue
   `is_complete` (all collections added, no merge running, at most one run),
   in which case it takes the final run (the first one to do so drains it).

   Runs are modelled as sets of block ids: a merge is a union, so
   `FinalRunIsEverything` says the drained run holds every block exactly once. *)
EXTENDS Naturals, FiniteSets, TLC

CONSTANTS P, MaxBlocks
Parts == 0..(P - 1)
BlockIds == { <<p, i>> : p \in Parts, i \in 1..MaxBlocks }

VARIABLES
  nblocks,      \* [partition -> number of sorted blocks it will add]; chosen initially
  runs,         \* set of runs in the queue (each a non-empty set of block ids); order is irrelevant to the protocol
  remaining_collection_count, running_merges,
  wakers,       \* parked partitions
  pc,           \* "collecting" | "poll" | "merging" | "take" | "draining" | "done"
  held,         \* [partition -> the two runs it is merging (as one set) or {}]
  runnable,
  drained       \* the run a partition took for draining, or {} ; and who
vars == <<nblocks, runs, remaining_collection_count, running_merges, wakers, pc, held, runnable, drained>>

IsComplete == remaining_collection_count = 0 /\ running_merges = 0 /\ Cardinality(runs) <= 1

Init ==
  /\ nblocks \in [Parts -> 0..MaxBlocks]
  /\ runs = {} /\ remaining_collection_count = P /\ running_merges = 0 /\ wakers = {}
  /\ pc = [p \in Parts |-> "collecting"] /\ held = [p \in Parts |-> {}]
  /\ runnable = Parts /\ drained = [p \in Parts |-> {}]

(* poll_finalize_execute -> add_sorted_blocks: cs: runs.extend(blocks); remaining_collection_count -= 1 (no wake-up) *)
AddSorted(p) ==
  /\ p \in runnable /\ pc[p] = "collecting"
  /\ runs' = runs \cup { {<<p, i>>} : i \in 1..nblocks[p] }
  /\ remaining_collection_count' = remaining_collection_count - 1
  /\ pc' = [pc EXCEPT ![p] = "poll"]
  /\ UNCHANGED <<nblocks, running_merges, wakers, held, runnable, drained>>

(* poll_merge_next, first cs *)
PollMerge(p) ==
  /\ p \in runnable /\ pc[p] = "poll"
  /\ IF IsComplete
     THEN pc' = [pc EXCEPT ![p] = "take"] /\ UNCHANGED <<runs, running_merges, wakers, held, runnable>>
     ELSE IF Cardinality(runs) < 2
     THEN /\ wakers' = wakers \cup {p} /\ runnable' = runnable \ {p}
          /\ UNCHANGED <<runs, running_merges, pc, held>>
     ELSE \E a \in runs, b \in runs :
            /\ a # b
            /\ runs' = runs \ {a, b}
            /\ running_merges' = running_merges + 1
            /\ held' = [held EXCEPT ![p] = a \cup b]
            /\ pc' = [pc EXCEPT ![p] = "merging"]
            /\ UNCHANGED <<wakers, runnable>>
  /\ UNCHANGED <<nblocks, remaining_collection_count, drained>>

(* merge outside the lock, then cs: push_back(out); running_merges -= 1; wakers.wake_all(); the partition
   re-schedules itself (cx.waker().wake_by_ref()) *)
MergeDone(p) ==
  /\ p \in runnable /\ pc[p] = "merging"
  /\ runs' = runs \cup {held[p]}
  /\ running_merges' = running_merges - 1
  /\ runnable' = runnable \cup wakers /\ wakers' = {}
  /\ held' = [held EXCEPT ![p] = {}]
  /\ pc' = [pc EXCEPT ![p] = "poll"]
  /\ UNCHANGED <<nblocks, remaining_collection_count, drained>>

(* take_sorted_run: cs: wakers.wake_all(); runs.pop_front() *)
TakeRun(p) ==
  /\ p \in runnable /\ pc[p] = "take"
  /\ Assert(IsComplete, "take_sorted_run before merging complete")
  /\ runnable' = runnable \cup wakers /\ wakers' = {}
  /\ IF runs = {}
     THEN pc' = [pc EXCEPT ![p] = "done"] /\ UNCHANGED <<runs, drained>>
     ELSE \E r \in runs : /\ runs' = runs \ {r}
                          /\ drained' = [drained EXCEPT ![p] = r]
                          /\ pc' = [pc EXCEPT ![p] = "draining"]
  /\ UNCHANGED <<nblocks, remaining_collection_count, running_merges, held>>

DrainDone(p) ==
  /\ p \in runnable /\ pc[p] = "draining"
  /\ pc' = [pc EXCEPT ![p] = "done"]
  /\ UNCHANGED <<nblocks, runs, remaining_collection_count, running_merges, wakers, held, runnable, drained>>

Step(p) == AddSorted(p) \/ PollMerge(p) \/ MergeDone(p) \/ TakeRun(p) \/ DrainDone(p)
Next == \E p \in Parts : Step(p)
Spec == Init /\ [][Next]_vars /\ \A p \in Parts : WF_vars(Step(p))

AllBlocks == { b \in BlockIds : b[2] <= nblocks[b[1]] }
AllDone == \A p \in Parts : pc[p] = "done"
TypeOK == remaining_collection_count \in 0..P /\ running_merges \in 0..P
ParkedDisjoint == wakers \cap runnable = {}
(* no block is lost or duplicated while merging: queue + in-flight + drained partition the blocks added so far *)
RunsDisjoint == \A a \in runs, b \in runs : a # b => a \cap b = {}
AtMostOneDrainer == Cardinality({p \in Parts : drained[p] # {}}) <= 1
FinalRunIsEverything == AllDone => (UNION {drained[p] : p \in Parts}) = AllBlocks
Termination == <>AllDone
=============================================================================
