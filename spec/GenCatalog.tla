----------------------------- MODULE GenCatalog -----------------------------
(* History generator for C14/C15: one statement history per TRANSITION of
   Catalog.tla's state graph. The history is hidden from TLC's fingerprint by
   VIEW, so BFS keeps one shortest history per abstract catalog state, and the
   action constraint prints history . statement for every (state, statement)
   pair: every statement kind is tried from every reachable catalog state,
   success and failure branches alike.                                        *)
EXTENDS Catalog, Json
EmitHist == PrintT(ToJson([h |-> hist']))
=============================================================================
