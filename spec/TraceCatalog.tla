---------------------------- MODULE TraceCatalog ----------------------------
(* Validation of replayed statement histories against Catalog.tla.
   One history per line:
     [id, h = << [s, stmt] >>, oks = << observed success of every statement >>,
      pre, post = projected state of every session before / after the LAST statement]
   The projection is what the engine's API exposes: schemas, entries with their
   kind and (for readable ones) contents, and the partitions setting.         *)
EXTENDS CatalogDefs, Json, IOUtils

Rec == ndJsonDeserialize(IOEnv.TRACE)
VARIABLE l

SetOf(s) == {s[i] : i \in DOMAIN s}
NS == 2

RECURSIVE RunHist(_, _, _)
RunHist(h, n, ss) ==   \* model state after the first n statements
  IF n = 0 THEN ss
  ELSE LET prev == RunHist(h, n - 1, ss) x == h[n]
       IN [prev EXCEPT ![x.s] = Apply(x.stmt, prev[x.s]).st]

Proj(st) == [schemas |-> st.schemas,
             ents |-> { <<k[1], k[2], st.ents[k].kind, Contents(st, k).ok, Contents(st, k).bag>> : k \in DOMAIN st.ents },
             part |-> st.part]
ObsProj(o) == [schemas |-> SetOf(o.schemas), ents |-> SetOf(o.ents), part |-> o.part]

Init0 == [s \in 1..NS |-> InitSess]

Why(r) ==
  LET n == Len(r.h)
      pre == RunHist(r.h, n - 1, Init0)
      post == RunHist(r.h, n, Init0)
      stAt(i) == RunHist(r.h, i - 1, Init0)[r.h[i].s]
      okAt(i) == Apply(r.h[i].stmt, stAt(i)).ok
      (* unspecified: DROP TABLE IF EXISTS naming a schema that does not exist may succeed or fail
         (the state is unchanged either way) *)
      anyOutcome(i) == r.h[i].stmt.op = "drop_table" /\ r.h[i].stmt.ie /\ r.h[i].stmt.sch \notin stAt(i).schemas
  IN IF \E i \in 1..n : ~anyOutcome(i) /\ okAt(i) # r.oks[i] THEN "outcome"
     ELSE IF \E s \in 1..NS : Proj(pre[s]) # ObsProj(r.pre[s]) THEN "pre-state"
     ELSE IF \E s \in 1..NS : Proj(post[s]) # ObsProj(r.post[s]) THEN "post-state"
     ELSE "ok"

Expected(r) ==
  LET n == Len(r.h) post == RunHist(r.h, n, Init0)
  IN [oks |-> [i \in 1..n |-> Apply(r.h[i].stmt, RunHist(r.h, i - 1, Init0)[r.h[i].s]).ok],
      post |-> [s \in 1..NS |-> [schemas |-> Proj(post[s]).schemas, ents |-> Proj(post[s]).ents, part |-> post[s].part]]]

TInit == l = 1
TNext == /\ l <= Len(Rec) /\ l' = l + 1
         /\ LET why == Why(Rec[l]) IN
            IF why = "ok" THEN TRUE ELSE PrintT(ToJson([mismatch |-> Rec[l].id, why |-> why, exp |-> Expected(Rec[l])]))
TSpec == TInit /\ [][TNext]_l
Accepted == TLCGet("stats").diameter - 1 = Len(Rec)
=============================================================================
