------------------------------- MODULE IntArith -------------------------------
(* C12 (integers): arithmetic is exact in the announced result type or fails.
   ty = [w |-> bit width, s |-> signed]. All values are BigInt terms.          *)
EXTENDS BigInt

One == FromInt(1)
MinOf(ty) == IF ty.s THEN Neg(Pow2(ty.w - 1)) ELSE Zero
MaxOf(ty) == IF ty.s THEN Sub(Pow2(ty.w - 1), One) ELSE Sub(Pow2(ty.w), One)
InRange(ty, v) == Le(MinOf(ty), v) /\ Le(v, MaxOf(ty))

Exact(op, a, b) ==
  CASE op = "add" -> Add(a, b)
    [] op = "sub" -> Sub(a, b)
    [] op = "mul" -> Mul(a, b)
    [] op = "neg" -> Neg(a)
    [] op = "abs" -> Abs(a)

(* expected outcome class of op(a, b) when the result is announced as rty *)
Expect(op, rty, a, b) ==
  IF op \in {"div", "rem"} THEN
       IF IsZero(b) THEN "err"
       ELSE IF op = "div" /\ ~InRange(rty, Mk(a.neg # b.neg, <<1>>)) /\ FALSE THEN "err"   \* (placeholder: see DivOK)
       ELSE "val"
  ELSE IF InRange(rty, Exact(op, a, b)) THEN "val" ELSE "err"

(* + - * unary-minus abs: out = [k |-> "val", v |-> BigInt] | [k |-> "err"] | any other k (panic, abort, ...) *)
SimpleOK(op, rty, a, b, out) ==
  LET e == Exact(op, a, b)
  IN IF InRange(rty, e) THEN out.k = "val" /\ out.v = e ELSE out.k = "err"

(* / and %: truncation toward zero, remainder takes the dividend's sign; the quotient
   is verified through DivRel, never computed. q out of range (MIN / -1) must be an
   error; for MIN % -1 the value 0 and an error are both admitted.              *)
DivOK(rty, a, b, outq, outr) ==
  IF IsZero(b) THEN outq.k = "err" /\ outr.k = "err"
  ELSE LET minOverNeg1 == rty.s /\ a = MinOf(rty) /\ b = Neg(One)
       IN IF minOverNeg1 THEN outq.k = "err" /\ (outr.k = "err" \/ (outr.k = "val" /\ IsZero(outr.v)))
          ELSE /\ outq.k = "val" /\ outr.k = "val"
               /\ DivRel(a, b, outq.v, outr.v)
               /\ InRange(rty, outq.v) /\ InRange(rty, outr.v)

(* SUM over a column: exact in the announced type or an error *)
RECURSIVE SumAll(_)
SumAll(vs) == IF vs = <<>> THEN Zero ELSE LET r == SumAll(Tail(vs)) IN Add(Head(vs), r)
SumOK(rty, vs, out) ==
  LET e == SumAll(vs) IN IF InRange(rty, e) THEN out.k = "val" /\ out.v = e ELSE out.k = "err"

(* self-check of the limb arithmetic against TLC's native integers *)
Probe == {-46340, -20001, -20000, -19999, -10001, -10000, -9999, -101, -2, -1, 0, 1, 2, 99, 9999, 10000, 10001,
          19999, 20000, 20001, 32767, 32768, 46340}
ASSUME \A x \in Probe, y \in Probe :
         /\ Add(FromInt(x), FromInt(y)) = FromInt(x + y)
         /\ Sub(FromInt(x), FromInt(y)) = FromInt(x - y)
         /\ Mul(FromInt(x), FromInt(y)) = FromInt(x * y)
         /\ Cmp(FromInt(x), FromInt(y)) = (IF x < y THEN -1 ELSE IF x > y THEN 1 ELSE 0)
         /\ WF(Mul(FromInt(x), FromInt(y)))
ASSUME Pow2(31) = Add(FromInt(2147483647), One) /\ Pow10(9) = FromInt(1000000000)
ASSUME DivRel(FromInt(-7), FromInt(2), FromInt(-3), FromInt(-1)) /\ ~DivRel(FromInt(-7), FromInt(2), FromInt(-4), FromInt(1))
=============================================================================
