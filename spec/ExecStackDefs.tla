----------------------------- MODULE ExecStackDefs -----------------------------
(* Constant-level definitions of the execution stack's transition function,
   shared by the model (ExecStack.tla) and the trace spec (TraceExecStack.tla). *)
EXTENDS Naturals, Sequences

CONSTANT N    \* number of operators (source .. sink), >= 2

Exec(i, s) == [k |-> "exec", op |-> i, start |-> s]
Fin(i)     == [k |-> "fin", op |-> i]
Last       == N - 1

(* the new stack and control flow for instruction `ins` popped from `rest` with poll result `p` *)
AfterExec(ins, rest, p) ==
  CASE p = "ready" ->
         [s |-> (IF ins.start THEN Append(rest, ins) ELSE rest)
                 \o (IF ins.op # Last THEN << Exec(ins.op + 1, FALSE) >> ELSE <<>>),
          cf |-> "continue"]
    [] p = "pending" -> [s |-> Append(rest, ins), cf |-> "pending"]
    [] p = "needs_more" -> [s |-> rest, cf |-> "continue"]
    [] p = "has_more" ->
         IF ins.op # Last
         THEN [s |-> Append(Append(rest, ins), Exec(ins.op + 1, FALSE)), cf |-> "continue"]
         ELSE [s |-> Append(rest, ins), cf |-> "error"]
    [] p = "exhausted" ->
         IF ins.op = Last
         THEN [s |-> <<>>, cf |-> "error"]
         ELSE [s |-> << Fin(ins.op + 1), Exec(ins.op + 1, FALSE) >>, cf |-> "continue"]

AfterFin(ins, rest, p) ==
  CASE p = "finalized" ->
         IF ins.op = Last THEN [s |-> rest, cf |-> "finished"]
         ELSE [s |-> Append(rest, Fin(ins.op + 1)), cf |-> "continue"]
    [] p = "needs_drain" ->
         IF ins.op = Last THEN [s |-> rest, cf |-> "error"]
         ELSE [s |-> Append(rest, Exec(ins.op, TRUE)), cf |-> "continue"]
    [] p = "pending" -> [s |-> Append(rest, ins), cf |-> "pending"]

=============================================================================
