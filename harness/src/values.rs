//! Neutral JSON encoding of engine values, types and schemas.
//!
//! The harness never interprets values; it only transports them. The
//! orchestrator maps this neutral encoding to the TLA+ value encodings.

use glaredb_core::arrays::array::Array;
use glaredb_core::arrays::batch::Batch;
use glaredb_core::arrays::datatype::DataType;
use glaredb_core::arrays::field::ColumnSchema;
use glaredb_core::arrays::scalar::BorrowedScalarValue;
use serde_json::{Value, json};

pub fn type_str(dt: &DataType) -> String {
    format!("{dt}")
}

pub fn schema_json(schema: &ColumnSchema) -> Value {
    Value::Array(
        schema
            .fields
            .iter()
            .map(|f| json!([f.name, type_str(&f.datatype)]))
            .collect(),
    )
}

/// Variant name of a scalar value (used for the "produced type" observation).
pub fn variant(v: &BorrowedScalarValue) -> &'static str {
    use BorrowedScalarValue::*;
    match v {
        Null => "Null",
        Boolean(_) => "Boolean",
        Float16(_) => "Float16",
        Float32(_) => "Float32",
        Float64(_) => "Float64",
        Int8(_) => "Int8",
        Int16(_) => "Int16",
        Int32(_) => "Int32",
        Int64(_) => "Int64",
        Int128(_) => "Int128",
        UInt8(_) => "UInt8",
        UInt16(_) => "UInt16",
        UInt32(_) => "UInt32",
        UInt64(_) => "UInt64",
        UInt128(_) => "UInt128",
        Decimal64(_) => "Decimal64",
        Decimal128(_) => "Decimal128",
        Date32(_) => "Date32",
        Date64(_) => "Date64",
        Timestamp(_) => "Timestamp",
        Interval(_) => "Interval",
        Utf8(_) => "Utf8",
        Binary(_) => "Binary",
        Struct(_) => "Struct",
        List(_) => "List",
    }
}

fn i128_json(v: i128) -> Value {
    if let Ok(x) = i64::try_from(v) {
        json!(x)
    } else {
        // serde_json numbers cannot hold 128-bit integers without the
        // arbitrary_precision feature; transport as a tagged string.
        json!({"big": v.to_string()})
    }
}

fn u128_json(v: u128) -> Value {
    if let Ok(x) = u64::try_from(v) {
        json!(x)
    } else {
        json!({"big": v.to_string()})
    }
}

pub fn value_json(v: &BorrowedScalarValue) -> Value {
    use BorrowedScalarValue::*;
    match v {
        Null => Value::Null,
        Boolean(b) => json!(b),
        Float16(f) => json!({"f16": f.to_bits()}),
        Float32(f) => json!({"f32": f.to_bits()}),
        Float64(f) => json!({"f64": f.to_bits().to_string()}),
        Int8(x) => json!(x),
        Int16(x) => json!(x),
        Int32(x) => json!(x),
        Int64(x) => json!(x),
        Int128(x) => i128_json(*x),
        UInt8(x) => json!(x),
        UInt16(x) => json!(x),
        UInt32(x) => json!(x),
        UInt64(x) => json!(x),
        UInt128(x) => u128_json(*x),
        Decimal64(d) => json!({"dec": [d.value.to_string(), d.precision, d.scale]}),
        Decimal128(d) => json!({"dec": [d.value.to_string(), d.precision, d.scale]}),
        Date32(d) => json!({"date32": d}),
        Date64(d) => json!({"date64": d}),
        Timestamp(t) => json!({"ts": [format!("{:?}", t.unit), t.value]}),
        Interval(i) => json!({"iv": [i.months, i.days, i.nanos]}),
        Utf8(s) => {
            // The engine builds &str with unchecked conversions in places;
            // validate so that invalid UTF-8 is an observation, not UB here.
            let bytes = s.as_bytes();
            match std::str::from_utf8(bytes) {
                Ok(s) => json!(s),
                Err(_) => json!({"badutf8": bytes.to_vec()}),
            }
        }
        Binary(b) => json!({"bin": b.to_vec()}),
        Struct(vs) => json!({"struct": vs.iter().map(value_json).collect::<Vec<_>>()}),
        List(vs) => json!({"list": vs.iter().map(value_json).collect::<Vec<_>>()}),
    }
}

pub struct BatchObs {
    pub rows: Vec<Value>,
    pub types: Vec<String>,
    /// For each column, the set of non-null scalar variants seen.
    pub variants: Vec<Vec<&'static str>>,
    pub num_rows: usize,
}

pub fn observe_batch(batch: &Batch) -> Result<BatchObs, String> {
    let n = batch.num_rows();
    let arrays: &[Array] = batch.arrays();
    let types: Vec<String> = arrays.iter().map(|a| type_str(a.datatype())).collect();
    let mut variants: Vec<Vec<&'static str>> = vec![Vec::new(); arrays.len()];
    let mut rows = Vec::with_capacity(n);
    for r in 0..n {
        let mut row = Vec::with_capacity(arrays.len());
        for (c, a) in arrays.iter().enumerate() {
            let v = a
                .get_value(r)
                .map_err(|e| format!("get_value({r}) on column {c}: {e}"))?;
            let var = variant(&v);
            if var != "Null" && !variants[c].contains(&var) {
                variants[c].push(var);
            }
            row.push(value_json(&v));
        }
        rows.push(Value::Array(row));
    }
    Ok(BatchObs {
        rows,
        types,
        variants,
        num_rows: n,
    })
}
