//! vdriver: executes cases against the engine built from /repo's working tree.
//!
//! Line protocol: one JSON case per stdin line, one JSON observation per
//! stdout line. The driver transports; it never judges.

mod det;
mod extra;
mod values;

use std::io::{BufRead, Write};
use std::panic::{AssertUnwindSafe, catch_unwind};
use std::sync::Mutex;
use std::sync::atomic::Ordering;

use det::{CONSUMER, DetSched, Entry, Fallback, Schedule};
use glaredb_core::engine::Engine;
use glaredb_core::engine::session::Session;
use glaredb_core::runtime::pipeline::PipelineRuntime;
use glaredb_parser::parser;
use glaredb_rt_native::runtime::{NativeSystemRuntime, ThreadedNativeExecutor};
use serde_json::{Value, json};

static PANICS: Mutex<Vec<String>> = Mutex::new(Vec::new());

fn install_panic_hook() {
    std::panic::set_hook(Box::new(|info| {
        let loc = info
            .location()
            .map(|l| format!("{}:{}", l.file(), l.line()))
            .unwrap_or_default();
        let msg = if let Some(s) = info.payload().downcast_ref::<&str>() {
            s.to_string()
        } else if let Some(s) = info.payload().downcast_ref::<String>() {
            s.clone()
        } else {
            "<non-string panic>".to_string()
        };
        let th = std::thread::current();
        let name = th.name().unwrap_or("").to_string();
        let rec = format!("{loc} | {msg}");
        if name != "vdriver-main" {
            // A panic on a pool thread aborts the process (rayon); make sure
            // the observation leaves the process first.
            let line = json!({"abort_panic": rec, "thread": name});
            let out = std::io::stdout();
            let mut out = out.lock();
            let _ = writeln!(out, "{line}");
            let _ = out.flush();
        }
        PANICS.lock().unwrap_or_else(|e| e.into_inner()).push(rec);
    }));
}

fn take_panics() -> Vec<String> {
    std::mem::take(&mut *PANICS.lock().unwrap_or_else(|e| e.into_inner()))
}

fn parse_schedule(rt: &Value) -> Schedule {
    let mut entries = Vec::new();
    if let Some(script) = rt.get("script").and_then(|s| s.as_array()) {
        for e in script {
            if e.as_str() == Some("cancel") {
                entries.push(Entry::Cancel);
                continue;
            }
            let arr = e.as_array().expect("script entry");
            let t = match &arr[0] {
                Value::String(s) if s == "c" => CONSUMER,
                v => v.as_u64().expect("task") as usize,
            };
            let k = arr.get(1).and_then(|k| k.as_u64()).unwrap_or(0) as usize;
            let sp = arr.get(2).and_then(|s| s.as_str()) == Some("s");
            entries.push(if sp { Entry::Spurious { t, k } } else { Entry::Poll { t, k } });
        }
    }
    let choices = rt
        .get("choices")
        .and_then(|c| c.as_array())
        .map(|c| c.iter().map(|x| x.as_u64().unwrap_or(0) as usize).collect())
        .unwrap_or_default();
    let fallback = match rt.get("fallback").and_then(|f| f.as_str()).unwrap_or("first") {
        "last" => Fallback::Last,
        "consumer" => Fallback::ConsumerFirst,
        "rand" => Fallback::Rand {
            seed: rt.get("seed").and_then(|s| s.as_u64()).unwrap_or(1),
            maxk: rt.get("maxk").and_then(|s| s.as_u64()).unwrap_or(0) as usize,
        },
        _ => Fallback::First,
    };
    Schedule {
        entries,
        choices,
        fallback,
        max_steps: rt.get("max_steps").and_then(|s| s.as_u64()).unwrap_or(20000) as usize,
        default_k: rt.get("k").and_then(|s| s.as_u64()).unwrap_or(0) as usize,
    }
}

fn collect_obs(batches: Vec<glaredb_core::arrays::batch::Batch>, schema: Value) -> Value {
    let mut rows: Vec<Value> = Vec::new();
    let mut btypes: Vec<Vec<String>> = Vec::new();
    let mut variants: Vec<Vec<&'static str>> = Vec::new();
    let mut batch_rows = Vec::new();
    for b in &batches {
        match values::observe_batch(b) {
            Ok(obs) => {
                batch_rows.push(obs.num_rows);
                if !btypes.contains(&obs.types) {
                    btypes.push(obs.types);
                }
                if variants.len() < obs.variants.len() {
                    variants.resize(obs.variants.len(), Vec::new());
                }
                for (c, vs) in obs.variants.into_iter().enumerate() {
                    for v in vs {
                        if !variants[c].contains(&v) {
                            variants[c].push(v);
                        }
                    }
                }
                rows.extend(obs.rows);
            }
            Err(e) => return json!({"outcome": "observe_error", "msg": e}),
        }
    }
    json!({"outcome": "rows", "schema": schema, "btypes": btypes, "variants": variants,
           "rows": rows, "batch_rows": batch_rows})
}

fn err_json(phase: &str, e: &glaredb_error::DbError) -> Value {
    let m = format!("{e}");
    let m = m.split("\nBacktrace").next().unwrap_or("").to_string();
    json!({"outcome": "error", "phase": phase, "msg": m})
}

/// Run one statement on the thread pool runtime.
fn run_stmt_threaded<P: PipelineRuntime>(
    sess: &mut Session<P, NativeSystemRuntime>,
    sql: &str,
    cancel: bool,
) -> Vec<Value> {
    let stmts = match parser::parse(sql) {
        Ok(s) => s,
        Err(e) => return vec![err_json("parse", &e)],
    };
    let mut out = Vec::new();
    if stmts.is_empty() {
        // An empty statement list (";", whitespace) is a no-op that succeeds.
        return vec![json!({"outcome": "rows", "schema": [], "btypes": [], "variants": [], "rows": [], "batch_rows": [], "empty": true})];
    }
    for stmt in stmts {
        let r = futures::executor::block_on(async {
            if let Err(e) = sess.prepare("", stmt) {
                return err_json("prepare", &e);
            }
            if let Err(e) = sess.bind("", "").await {
                return err_json("bind", &e);
            }
            let mut qr = match sess.execute("").await {
                Ok(q) => q,
                Err(e) => return err_json("execute", &e),
            };
            let schema = values::schema_json(&qr.output_schema);
            if cancel {
                qr.output.query_handle().cancel();
            }
            match qr.output.collect().await {
                Ok(batches) => collect_obs(batches, schema),
                Err(e) => {
                    let mut v = err_json("run", &e);
                    v["schema"] = schema;
                    v
                }
            }
        });
        let stop = r["outcome"] != "rows";
        out.push(r);
        if stop {
            break;
        }
    }
    out
}

/// Run one statement on DetSched under a schedule.
fn run_stmt_det(
    det: &DetSched,
    sess: &mut Session<DetSched, NativeSystemRuntime>,
    sql: &str,
    sched: &Schedule,
) -> Vec<Value> {
    let stmts = match parser::parse(sql) {
        Ok(s) => s,
        Err(e) => return vec![err_json("parse", &e)],
    };
    let mut out = Vec::new();
    if stmts.is_empty() {
        return vec![json!({"outcome": "rows", "schema": [], "btypes": [], "variants": [], "rows": [], "batch_rows": [], "empty": true})];
    }
    for stmt in stmts {
        let first_task = det.inner.lock().tasks.len();
        let pre = futures::executor::block_on(async {
            if let Err(e) = sess.prepare("", stmt) {
                return Err(err_json("prepare", &e));
            }
            if let Err(e) = sess.bind("", "").await {
                return Err(err_json("bind", &e));
            }
            match sess.execute("").await {
                Ok(q) => Ok(q),
                Err(e) => Err(err_json("execute", &e)),
            }
        });
        let mut qr = match pre {
            Ok(q) => q,
            Err(v) => {
                out.push(v);
                break;
            }
        };
        let schema = values::schema_json(&qr.output_schema);
        let handle = qr.output.query_handle();
        let ntasks = det.inner.lock().tasks.len() - first_task;
        let (res, log) = {
            let fut = qr.output.collect();
            let mut fut = std::pin::pin!(fut);
            det::drive(det, first_task, fut.as_mut(), sched, Some(handle))
        };
        let mut v = match res {
            Some(Ok(batches)) => collect_obs(batches, schema),
            Some(Err(e)) => {
                let mut v = err_json("run", &e);
                v["schema"] = schema;
                v
            }
            None => {
                if log.hang {
                    json!({"outcome": "hang", "schema": schema})
                } else {
                    json!({"outcome": "steplimit", "schema": schema})
                }
            }
        };
        // Unfinished tasks at the end (informational).
        let unfinished: Vec<usize> = {
            let inner = det.inner.lock();
            (first_task..inner.tasks.len())
                .filter(|t| !inner.tasks[*t].done)
                .map(|t| t - first_task)
                .collect()
        };
        // Renumber tasks relative to this statement.
        let steps: Vec<Value> = log
            .steps
            .into_iter()
            .map(|mut s| {
                let fix = |x: &mut Value| {
                    if let Some(n) = x.as_u64() {
                        *x = json!(n as usize - first_task);
                    }
                };
                if let Some(t) = s.get_mut("t") {
                    fix(t);
                }
                for key in ["woke", "en"] {
                    if let Some(w) = s.get_mut(key).and_then(|w| w.as_array_mut()) {
                        for x in w.iter_mut() {
                            fix(x);
                        }
                    }
                }
                s
            })
            .collect();
        v["sched"] = json!({"ntasks": ntasks, "steps": steps, "enabled_counts": log.enabled_counts,
                            "unfinished": unfinished});
        let stop = v["outcome"] != "rows";
        out.push(v);
        // Drop finished tasks' pipelines of this statement.
        det.inner.lock().tasks.truncate(first_task);
        if stop {
            break;
        }
    }
    out
}

fn set_knobs(case: &Value) {
    use glaredb_core::verif as v;
    let k = case.get("knobs");
    let get = |name: &str| -> usize {
        k.and_then(|k| k.get(name)).and_then(|x| x.as_u64()).unwrap_or(0) as usize
    };
    v::TABLE_CHUNK_CAPACITY.store(get("table_chunk_capacity"), Ordering::SeqCst);
    v::TABLE_SEGMENT_SIZE.store(get("table_segment_size"), Ordering::SeqCst);
    v::CSV_READ_BUF_SIZE.store(get("csv_read_buf_size"), Ordering::SeqCst);
}

fn run_case(case: &Value, tokio_rt: &tokio::runtime::Runtime) -> Value {
    if let Some(kind) = case.get("kind").and_then(|k| k.as_str()) {
        if kind != "sql" {
            return extra::run(kind, case);
        }
    }
    set_knobs(case);
    let want_events = case.get("events").and_then(|e| e.as_bool()).unwrap_or(false);
    glaredb_core::verif::take_events();
    glaredb_core::verif::set_enabled(want_events);

    let rt = case.get("rt").cloned().unwrap_or(json!({"kind": "threaded", "threads": 2}));
    let kind = rt.get("kind").and_then(|k| k.as_str()).unwrap_or("threaded").to_string();
    let nsess = case.get("sessions").and_then(|s| s.as_u64()).unwrap_or(1) as usize;
    let steps = case.get("steps").and_then(|s| s.as_array()).cloned().unwrap_or_default();
    let sysrt = NativeSystemRuntime::new(tokio_rt.handle().clone());
    let mut results: Vec<Value> = Vec::new();

    macro_rules! step_loop {
        ($sessions:ident, $run:expr) => {
            for (step_idx, step) in steps.iter().enumerate() {
                glaredb_core::verif::emit("Stmt", &[("i", step_idx.to_string())]);
                let s = step.get("s").and_then(|s| s.as_u64()).unwrap_or(0) as usize;
                let sql = step.get("sql").and_then(|s| s.as_str()).unwrap_or("");
                let sess = &mut $sessions[s];
                let r = catch_unwind(AssertUnwindSafe(|| $run(sess, sql, step)));
                let r = match r {
                    Ok(v) => v,
                    Err(_) => vec![json!({"outcome": "panic", "msg": take_panics().join(" || ")})],
                };
                results.push(Value::Array(r));
            }
        };
    }

    if kind == "det" {
        let parts = rt.get("partitions").and_then(|p| p.as_u64()).unwrap_or(2) as usize;
        let det = DetSched::new(parts);
        let engine = match Engine::new(det.clone(), sysrt) {
            Ok(e) => e,
            Err(e) => return json!({"id": case["id"], "fatal": format!("{e}")}),
        };
        if let Err(e) = glaredb_ext_default::register_all(&engine) {
            return json!({"id": case["id"], "fatal": format!("{e}")});
        }
        let mut sessions: Vec<_> = (0..nsess).map(|_| engine.new_session().unwrap()).collect();
        let default_sched = parse_schedule(&rt);
        let plain = Schedule {
            entries: vec![],
            choices: vec![],
            fallback: Fallback::First,
            max_steps: 1_000_000,
            default_k: 0,
        };
        step_loop!(sessions, |sess: &mut Session<DetSched, NativeSystemRuntime>,
                              sql: &str,
                              step: &Value| {
            // Only steps marked "sched": true (or carrying their own "rt") run
            // under the case's schedule; setup steps run under the plain one.
            let sched = if let Some(r) = step.get("rt") {
                parse_schedule(r)
            } else if step.get("sched").and_then(|b| b.as_bool()).unwrap_or(false) {
                default_sched.clone()
            } else {
                plain.clone()
            };
            run_stmt_det(&det, sess, sql, &sched)
        });
    } else {
        let threads = rt.get("threads").and_then(|p| p.as_u64()).unwrap_or(2) as usize;
        let exec = match ThreadedNativeExecutor::try_new_with_num_threads(threads) {
            Ok(e) => e,
            Err(e) => return json!({"id": case["id"], "fatal": format!("{e}")}),
        };
        let engine = match Engine::new(exec, sysrt) {
            Ok(e) => e,
            Err(e) => return json!({"id": case["id"], "fatal": format!("{e}")}),
        };
        if let Err(e) = glaredb_ext_default::register_all(&engine) {
            return json!({"id": case["id"], "fatal": format!("{e}")});
        }
        let mut sessions: Vec<_> = (0..nsess).map(|_| engine.new_session().unwrap()).collect();
        step_loop!(sessions, |sess: &mut Session<ThreadedNativeExecutor, NativeSystemRuntime>,
                              sql: &str,
                              step: &Value| {
            let cancel = step.get("cancel").and_then(|b| b.as_bool()).unwrap_or(false);
            run_stmt_threaded(sess, sql, cancel)
        });
    }

    let mut out = json!({"id": case["id"], "steps": results});
    if want_events {
        // Worker threads finish their bookkeeping (task post-processing) after the client already has its
        // result: wait until no new event arrives for a few milliseconds before cutting the trace.
        let mut raw = glaredb_core::verif::take_events();
        let mut stable = 0;
        let t0 = std::time::Instant::now();
        while stable < 4 && t0.elapsed() < std::time::Duration::from_millis(500) {
            std::thread::sleep(std::time::Duration::from_millis(3));
            let more = glaredb_core::verif::take_events();
            if more.is_empty() {
                stable += 1;
            } else {
                raw.extend(more);
                stable = 0;
            }
        }
        let evs: Vec<Value> = raw
            .into_iter()
            .map(|s| serde_json::from_str(&s).unwrap_or(json!({"bad": s})))
            .collect();
        out["events"] = Value::Array(evs);
        glaredb_core::verif::set_enabled(false);
    }
    let p = take_panics();
    if !p.is_empty() {
        out["panics"] = json!(p);
    }
    out
}

fn main_loop() {
    let tokio_rt = tokio::runtime::Builder::new_multi_thread()
        .worker_threads(1)
        .build()
        .expect("tokio runtime");
    let stdin = std::io::stdin();
    for line in stdin.lock().lines() {
        let line = match line {
            Ok(l) => l,
            Err(_) => break,
        };
        if line.trim().is_empty() {
            continue;
        }
        let case: Value = match serde_json::from_str(&line) {
            Ok(c) => c,
            Err(e) => {
                println!("{}", json!({"fatal": format!("bad case json: {e}")}));
                continue;
            }
        };
        let r = catch_unwind(AssertUnwindSafe(|| run_case(&case, &tokio_rt)));
        let v = match r {
            Ok(v) => v,
            Err(_) => json!({"id": case["id"], "case_panic": take_panics().join(" || ")}),
        };
        let out = std::io::stdout();
        let mut out = out.lock();
        let _ = writeln!(out, "{v}");
        let _ = out.flush();
    }
}

fn main() {
    install_panic_hook();
    // The CLI's main thread has an 8 MiB stack; mirror that.
    let h = std::thread::Builder::new()
        .name("vdriver-main".into())
        .stack_size(8 << 20)
        .spawn(main_loop)
        .expect("spawn");
    let _ = h.join();
}
