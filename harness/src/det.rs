//! DetSched: a deterministic, single-threaded `PipelineRuntime`.
//!
//! It owns the partition pipelines handed over by `spawn_pipelines`, gives
//! each its own flag-setting waker, and polls exactly the task a schedule
//! names. The client's `collect()` future is one more task. Everything runs on
//! the calling thread, so a run is a deterministic function of (statements,
//! configuration, script) and "nothing runnable while the query is incomplete"
//! is an observable state rather than a timeout.

use std::future::Future;
use std::pin::Pin;
use std::sync::Arc;
use std::sync::atomic::{AtomicBool, Ordering};
use std::task::{Context, Poll, Wake, Waker};
use std::time::Duration;

use glaredb_core::execution::partition_pipeline::ExecutablePartitionPipeline;
use glaredb_core::runtime::pipeline::{ErrorSink, PipelineRuntime, QueryHandle};
use glaredb_core::runtime::profile_buffer::{ProfileBuffer, ProfileSink};
use glaredb_core::runtime::time::RuntimeInstant;
use glaredb_error::DbError;
use parking_lot::Mutex;
use serde_json::{Value, json};

#[derive(Debug, Clone)]
pub struct DetInstant(std::time::Instant);

impl RuntimeInstant for DetInstant {
    fn now() -> Self {
        DetInstant(std::time::Instant::now())
    }
    fn duration_since(&self, earlier: Self) -> Duration {
        self.0.saturating_duration_since(earlier.0)
    }
}

#[derive(Debug)]
pub struct FlagWaker {
    pub woken: AtomicBool,
    /// Number of wake calls received (for "repeated wake" observations).
    pub wakes: std::sync::atomic::AtomicUsize,
}

impl Wake for FlagWaker {
    fn wake(self: Arc<Self>) {
        self.woken.store(true, Ordering::SeqCst);
        self.wakes.fetch_add(1, Ordering::SeqCst);
    }
    fn wake_by_ref(self: &Arc<Self>) {
        self.woken.store(true, Ordering::SeqCst);
        self.wakes.fetch_add(1, Ordering::SeqCst);
    }
}

pub struct DetTask {
    pub pipeline: ExecutablePartitionPipeline,
    pub flag: Arc<FlagWaker>,
    pub done: bool,
    pub errored: bool,
    pub errors: Arc<dyn ErrorSink>,
    pub sink: ProfileSink,
    pub polls: usize,
    pub canceled: Arc<AtomicBool>,
}

impl std::fmt::Debug for DetTask {
    fn fmt(&self, f: &mut std::fmt::Formatter<'_>) -> std::fmt::Result {
        f.debug_struct("DetTask").finish_non_exhaustive()
    }
}

#[derive(Debug, Default)]
pub struct DetInner {
    pub tasks: Vec<DetTask>,
}

#[derive(Debug, Clone)]
pub struct DetSched {
    pub inner: Arc<Mutex<DetInner>>,
    pub partitions: usize,
}

impl DetSched {
    pub fn new(partitions: usize) -> Self {
        DetSched {
            inner: Arc::new(Mutex::new(DetInner::default())),
            partitions,
        }
    }
}

#[derive(Debug)]
pub struct DetHandle {
    profiles: ProfileBuffer,
    canceled: Arc<AtomicBool>,
    flags: Vec<Arc<FlagWaker>>,
}

impl QueryHandle for DetHandle {
    fn cancel(&self) {
        // Mirrors ThreadedQueryHandle::cancel: mark canceled, then reschedule
        // every task so it observes the flag.
        self.canceled.store(true, Ordering::SeqCst);
        for f in &self.flags {
            f.woken.store(true, Ordering::SeqCst);
        }
    }
    fn get_profile_buffer(&self) -> &ProfileBuffer {
        &self.profiles
    }
}

impl PipelineRuntime for DetSched {
    fn default_partitions(&self) -> usize {
        self.partitions
    }

    fn spawn_pipelines(
        &self,
        pipelines: Vec<ExecutablePartitionPipeline>,
        errors: Arc<dyn ErrorSink>,
    ) -> Arc<dyn QueryHandle> {
        let (profiles, sinks) = ProfileBuffer::new(pipelines.len());
        let canceled = Arc::new(AtomicBool::new(false));
        let mut flags = Vec::new();
        let mut inner = self.inner.lock();
        for (pipeline, sink) in pipelines.into_iter().zip(sinks) {
            // Like the thread pool, every task is scheduled once at spawn.
            let flag = Arc::new(FlagWaker {
                woken: AtomicBool::new(true),
                wakes: std::sync::atomic::AtomicUsize::new(0),
            });
            flags.push(flag.clone());
            inner.tasks.push(DetTask {
                pipeline,
                flag,
                done: false,
                errored: false,
                errors: errors.clone(),
                sink,
                polls: 0,
                canceled: canceled.clone(),
            });
        }
        Arc::new(DetHandle {
            profiles,
            canceled,
            flags,
        })
    }
}

/// One schedule entry.
#[derive(Debug, Clone)]
pub enum Entry {
    /// Poll task `t` (usize::MAX = the consumer) with a step budget (0 = unlimited).
    Poll { t: usize, k: usize },
    /// Poll task `t` even though it was not woken (spurious poll).
    Spurious { t: usize, k: usize },
    /// Cancel the query through its handle.
    Cancel,
}

#[derive(Debug, Clone)]
pub enum Fallback {
    /// Lowest-index enabled pipeline task first, consumer last.
    First,
    /// Highest-index enabled pipeline task first, consumer last.
    Last,
    /// Consumer first whenever enabled, then lowest index.
    ConsumerFirst,
    /// Pseudo-random (xorshift) with seed and a step budget in 0..=maxk (0 = unlimited).
    Rand { seed: u64, maxk: usize },
}

#[derive(Debug, Clone)]
pub struct Schedule {
    pub entries: Vec<Entry>,
    /// Index-based choices used after `entries` are exhausted: at each step pick
    /// enabled[choice % len]; lets the orchestrator run a DFS over the
    /// implementation's enabled sets.
    pub choices: Vec<usize>,
    pub fallback: Fallback,
    pub max_steps: usize,
    /// Budget applied to polls chosen by `choices`/fallback (0 = unlimited).
    pub default_k: usize,
}

pub const CONSUMER: usize = usize::MAX;

pub struct RunLog {
    pub steps: Vec<Value>,
    pub enabled_counts: Vec<usize>,
    pub hang: bool,
    pub step_limit: bool,
    pub repolled_finished: bool,
}

fn tname(t: usize) -> Value {
    if t == CONSUMER { json!("c") } else { json!(t) }
}

/// Drive `fut` (the consumer) and the scheduler's tasks to completion under `sched`.
///
/// Returns the consumer's output (None on hang / step limit) and the log of
/// executed steps.
pub fn drive<T>(
    det: &DetSched,
    first_task: usize,
    mut fut: Pin<&mut (dyn Future<Output = T> + '_)>,
    sched: &Schedule,
    handle: Option<Arc<dyn QueryHandle>>,
) -> (Option<T>, RunLog) {
    let cflag = Arc::new(FlagWaker {
        woken: AtomicBool::new(true),
        wakes: std::sync::atomic::AtomicUsize::new(0),
    });
    let cwaker: Waker = cflag.clone().into();
    let mut log = RunLog {
        steps: Vec::new(),
        enabled_counts: Vec::new(),
        hang: false,
        step_limit: false,
        repolled_finished: false,
    };
    let mut entries: std::collections::VecDeque<Entry> = sched.entries.iter().cloned().collect();
    let mut choice_pos = 0usize;
    let mut rng = match sched.fallback {
        Fallback::Rand { seed, .. } => seed | 1,
        _ => 1,
    };
    let mut next_rand = move || {
        rng ^= rng << 13;
        rng ^= rng >> 7;
        rng ^= rng << 17;
        rng
    };
    let mut result: Option<T> = None;
    let mut consumer_done = false;

    'outer: loop {
        if log.steps.len() >= sched.max_steps {
            log.step_limit = true;
            break;
        }
        // Enabled set.
        let ntasks;
        let mut enabled: Vec<usize> = Vec::new();
        {
            let inner = det.inner.lock();
            ntasks = inner.tasks.len();
            for t in first_task..ntasks {
                let task = &inner.tasks[t];
                if !task.done && task.flag.woken.load(Ordering::SeqCst) {
                    enabled.push(t);
                }
            }
        }
        if !consumer_done && cflag.woken.load(Ordering::SeqCst) {
            enabled.push(CONSUMER);
        }
        if consumer_done {
            // The client has its answer. Remaining tasks (e.g. after an error)
            // are not part of the observable result.
            break;
        }

        // Pick.
        let mut picked: Option<(usize, usize, bool)> = None; // (task, k, spurious)
        while let Some(e) = entries.pop_front() {
            match e {
                Entry::Poll { t, k } => {
                    if enabled.contains(&t) {
                        picked = Some((t, k, false));
                        break;
                    }
                }
                Entry::Spurious { t, k } => {
                    let ok = if t == CONSUMER {
                        !consumer_done
                    } else {
                        let inner = det.inner.lock();
                        t >= first_task && t < inner.tasks.len() && !inner.tasks[t].done
                    };
                    if ok {
                        picked = Some((t, k, true));
                        break;
                    }
                }
                Entry::Cancel => {
                    if let Some(h) = &handle {
                        h.cancel();
                        log.steps.push(json!({"cancel": true}));
                    }
                    // Recompute the enabled set.
                    continue 'outer;
                }
            }
        }
        if picked.is_none() {
            if enabled.is_empty() {
                log.hang = true;
                break;
            }
            log.enabled_counts.push(enabled.len());
            if choice_pos < sched.choices.len() {
                let c = sched.choices[choice_pos] % enabled.len();
                choice_pos += 1;
                picked = Some((enabled[c], sched.default_k, false));
            } else {
                let t = match &sched.fallback {
                    Fallback::First => enabled[0],
                    Fallback::Last => {
                        let pipes: Vec<_> =
                            enabled.iter().copied().filter(|t| *t != CONSUMER).collect();
                        *pipes.last().unwrap_or(&CONSUMER)
                    }
                    Fallback::ConsumerFirst => {
                        if enabled.contains(&CONSUMER) { CONSUMER } else { enabled[0] }
                    }
                    Fallback::Rand { .. } => enabled[(next_rand() % enabled.len() as u64) as usize],
                };
                let k = match &sched.fallback {
                    Fallback::Rand { maxk, .. } if *maxk > 0 => {
                        (next_rand() % (*maxk as u64 + 1)) as usize
                    }
                    _ => sched.default_k,
                };
                picked = Some((t, k, false));
            }
        }
        let (t, k, spurious) = picked.unwrap();

        // Snapshot wake flags of everyone else.
        let before: Vec<bool> = {
            let inner = det.inner.lock();
            inner.tasks.iter().map(|x| x.flag.woken.load(Ordering::SeqCst)).collect()
        };
        let cbefore = cflag.woken.load(Ordering::SeqCst);

        let res: &'static str;
        if t == CONSUMER {
            cflag.woken.store(false, Ordering::SeqCst);
            let mut cx = Context::from_waker(&cwaker);
            match fut.as_mut().poll(&mut cx) {
                Poll::Ready(v) => {
                    result = Some(v);
                    consumer_done = true;
                    res = "ready";
                }
                Poll::Pending => res = "pending",
            }
        } else {
            // Take the task out so the lock is not held while polling.
            let (flag, canceled) = {
                let inner = det.inner.lock();
                (inner.tasks[t].flag.clone(), inner.tasks[t].canceled.clone())
            };
            flag.woken.store(false, Ordering::SeqCst);
            if canceled.load(Ordering::SeqCst) {
                // Mirrors TaskState::schedule: a canceled task is not polled; the
                // error sink receives "Query canceled".
                let mut inner = det.inner.lock();
                let task = &mut inner.tasks[t];
                task.errors.set_error(DbError::new("Query canceled"));
                task.done = true;
                res = "canceled";
            } else {
                let waker: Waker = flag.clone().into();
                let mut cx = Context::from_waker(&waker);
                let mut inner = det.inner.lock();
                let task = &mut inner.tasks[t];
                if task.done {
                    log.repolled_finished = true;
                }
                task.polls += 1;
                glaredb_core::verif::set_step_budget(if k == 0 { None } else { Some(k) });
                let p = task.pipeline.poll_execute::<DetInstant>(&mut cx);
                glaredb_core::verif::set_step_budget(None);
                match p {
                    Poll::Ready(Ok(prof)) => {
                        task.sink.put(prof);
                        task.done = true;
                        res = "done";
                    }
                    Poll::Ready(Err(e)) => {
                        task.errors.set_error(e);
                        // The property's reading: an errored task is finished.
                        task.done = true;
                        task.errored = true;
                        res = "error";
                    }
                    Poll::Pending => res = "pending",
                }
            }
        }

        // Who got woken during this step?
        let mut woke: Vec<Value> = Vec::new();
        let mut selfwake = false;
        {
            let inner = det.inner.lock();
            for (i, x) in inner.tasks.iter().enumerate() {
                let now = x.flag.woken.load(Ordering::SeqCst);
                let was = if i < before.len() { before[i] } else { false };
                if i == t {
                    selfwake = now;
                } else if now && !was {
                    woke.push(json!(i));
                }
            }
        }
        let cnow = cflag.woken.load(Ordering::SeqCst);
        if t == CONSUMER {
            selfwake = cnow;
        } else if cnow && !cbefore {
            woke.push(json!("c"));
        }
        log.steps.push(json!({
            "t": tname(t), "k": k, "r": res, "woke": woke, "self": selfwake, "sp": spurious,
            "en": enabled.iter().map(|t| tname(*t)).collect::<Vec<_>>(),
        }));
    }
    (result, log)
}
