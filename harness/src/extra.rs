//! Non-SQL case kinds: direct replays of TLC-generated behaviours into engine components.

use glaredb_core::execution::operators::{PollExecute, PollFinalize};
use glaredb_core::execution::verif_exports::{Effects, ExecutionStack, StackControlFlow};
use glaredb_error::{DbError, Result};
use serde_json::{Value, json};

pub fn run(kind: &str, case: &Value) -> Value {
    match kind {
        "exec_stack" => exec_stack(case),
        _ => json!({"id": case["id"], "fatal": format!("unknown case kind {kind}")}),
    }
}

/// Scripted Effects: returns the next poll result of the script, records the call.
struct Scripted<'a> {
    polls: &'a [String],
    pos: usize,
    calls: Vec<(String, usize, String)>,
}

impl Effects for Scripted<'_> {
    fn handle_execute(&mut self, op_idx: usize) -> Result<PollExecute> {
        let p = self.polls.get(self.pos).cloned().unwrap_or_default();
        self.pos += 1;
        self.calls.push(("exec".into(), op_idx, p.clone()));
        Ok(match p.as_str() {
            "ready" => PollExecute::Ready,
            "pending" => PollExecute::Pending,
            "needs_more" => PollExecute::NeedsMore,
            "has_more" => PollExecute::HasMore,
            "exhausted" => PollExecute::Exhausted,
            other => return Err(DbError::new(format!("script: bad execute poll '{other}'"))),
        })
    }

    fn handle_finalize(&mut self, op_idx: usize) -> Result<PollFinalize> {
        let p = self.polls.get(self.pos).cloned().unwrap_or_default();
        self.pos += 1;
        self.calls.push(("fin".into(), op_idx, p.clone()));
        Ok(match p.as_str() {
            "finalized" => PollFinalize::Finalized,
            "needs_drain" => PollFinalize::NeedsDrain,
            "pending" => PollFinalize::Pending,
            other => return Err(DbError::new(format!("script: bad finalize poll '{other}'"))),
        })
    }
}

/// case: {"n": operators, "polls": [poll results in call order]}
/// Drives ExecutionStack::pop_next once per scripted poll and records, per step, the Effects
/// call the stack made and the control flow it returned.
fn exec_stack(case: &Value) -> Value {
    let n = case["n"].as_u64().unwrap_or(2) as usize;
    let polls: Vec<String> = case["polls"]
        .as_array()
        .map(|a| a.iter().map(|x| x.as_str().unwrap_or("").to_string()).collect())
        .unwrap_or_default();
    let mut stack = ExecutionStack::new(n);
    let mut eff = Scripted { polls: &polls, pos: 0, calls: Vec::new() };
    let mut steps = Vec::new();
    // one pop_next per scripted poll; a "none" poll means "pop on an empty stack"
    for _ in 0..polls.len() {
        let before = eff.calls.len();
        let cf = match stack.pop_next(&mut eff) {
            Ok(StackControlFlow::Continue) => "continue",
            Ok(StackControlFlow::Finished) => "finished",
            Ok(StackControlFlow::Pending) => "pending",
            Err(_) => "error",
        };
        let call = if eff.calls.len() > before {
            let c = &eff.calls[before];
            json!([c.0, c.1, c.2])
        } else {
            // no Effects call was made: the poll slot was not consumed
            json!(["none", 0, "none"])
        };
        if eff.calls.len() == before {
            // keep script and calls aligned: an unconsumed slot must itself be a "none" slot
            eff.pos += 1;
        }
        steps.push(json!({"call": call, "cf": cf}));
        if cf == "finished" || cf == "error" {
            break;
        }
    }
    json!({"id": case["id"], "steps": steps})
}
