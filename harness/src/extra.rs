//! Non-SQL case kinds (execution stack walk, CSV decoder feed, ...).

use serde_json::{Value, json};

pub fn run(kind: &str, case: &Value) -> Value {
    match kind {
        _ => json!({"id": case["id"], "fatal": format!("unknown case kind {kind}")}),
    }
}
