"""Independent Parquet writer (own thrift-compact encoder, PLAIN / RLE_DICTIONARY values, RLE/bit-packed
definition levels, data pages v1 and v2, multi-page / multi-row-group files, statistics under the caller's
control, UNCOMPRESSED / GZIP). It shares no code with the engine's reader; it is the trusted concretisation of
the abstract layouts of spec/ParquetLayout.tla.

A file description:
  {"columns": [{"name", "type": "INT32"|"INT64"|"DOUBLE"|"FLOAT"|"BOOLEAN"|"BYTE_ARRAY", "optional": bool,
                "converted": None|"UTF8"|"INT_8"|"UINT_32"|...}],
   "row_groups": [{"pages": [[row, ...], ...]  per row group: list of pages, each a list of rows (tuples of values or None),
                   "stats": {col_idx: {"min": v, "max": v, "null_count": n} | "absent"} (default: exact),
                   }],
   "page_version": 1|2, "dictionary": bool, "value_encoding": "plain"|"delta"|"bss", "delta_block": (block, miniblocks),
   "delta_strings": "length"|"prefix", "codec": "UNCOMPRESSED"|"GZIP", "level_runs": "rle"|"bitpacked"|"mixed",
   "lies": {field_path: value}}   # for fault injection
"""
import struct, zlib, io

# ----------------------------------------------------------------------------- thrift compact
CT_STOP, CT_TRUE, CT_FALSE, CT_BYTE, CT_I16, CT_I32, CT_I64, CT_DOUBLE, CT_BINARY, CT_LIST, CT_SET, CT_MAP, CT_STRUCT = range(13)


def varint(n):
    out = bytearray()
    while True:
        b = n & 0x7F
        n >>= 7
        if n:
            out.append(b | 0x80)
        else:
            out.append(b)
            return bytes(out)


def zigzag(n, bits=64):
    return (n << 1) ^ (n >> (bits - 1))


class TStruct:
    """fields: list of (id, ctype, value); value for STRUCT is a TStruct, for LIST is (elem_ctype, [values])"""

    def __init__(self, fields):
        self.fields = [f for f in fields if f[2] is not None]

    def encode(self):
        out = bytearray()
        last = 0
        for fid, ct, val in sorted(self.fields, key=lambda f: f[0]):
            if ct in (CT_TRUE, CT_FALSE):
                ct = CT_TRUE if val else CT_FALSE
            delta = fid - last
            if 0 < delta <= 15:
                out.append((delta << 4) | ct)
            else:
                out.append(ct)
                out += varint(zigzag(fid, 16) & 0xFFFFFFFF)
            last = fid
            out += enc_value(ct, val)
        out.append(CT_STOP)
        return bytes(out)


def enc_value(ct, val):
    if ct in (CT_TRUE, CT_FALSE):
        return b""
    if ct == CT_BYTE:
        return struct.pack("b", val)
    if ct in (CT_I16, CT_I32, CT_I64):
        return varint(zigzag(val) & ((1 << 64) - 1))
    if ct == CT_DOUBLE:
        return struct.pack("<d", val)
    if ct == CT_BINARY:
        b = val.encode() if isinstance(val, str) else bytes(val)
        return varint(len(b)) + b
    if ct == CT_STRUCT:
        return val.encode()
    if ct == CT_LIST:
        et, items = val
        out = bytearray()
        if len(items) < 15:
            out.append((len(items) << 4) | et)
        else:
            out.append(0xF0 | et)
            out += varint(len(items))
        for it in items:
            if et in (CT_TRUE, CT_FALSE):
                out.append(1 if it else 2)
            else:
                out += enc_value(et, it)
        return bytes(out)
    raise ValueError(ct)


# ----------------------------------------------------------------------------- encodings
PTYPE = {"BOOLEAN": 0, "INT32": 1, "INT64": 2, "INT96": 3, "FLOAT": 4, "DOUBLE": 5, "BYTE_ARRAY": 6, "FIXED_LEN_BYTE_ARRAY": 7}
CONVERTED = {"UTF8": 0, "DATE": 6, "UINT_8": 11, "UINT_16": 12, "UINT_32": 13, "UINT_64": 14, "INT_8": 15, "INT_16": 16, "INT_32": 17, "INT_64": 18,
             "TIMESTAMP_MILLIS": 9, "TIMESTAMP_MICROS": 10}
ENC_PLAIN, ENC_RLE, ENC_RLE_DICT = 0, 3, 8
ENC_DELTA_BINARY_PACKED, ENC_DELTA_LENGTH_BYTE_ARRAY, ENC_DELTA_BYTE_ARRAY, ENC_BYTE_STREAM_SPLIT = 5, 6, 7, 9
CODEC = {"UNCOMPRESSED": 0, "GZIP": 2}


def plain(ptype, vals):
    out = bytearray()
    if ptype == "BOOLEAN":
        byte, n = 0, 0
        for v in vals:
            if v:
                byte |= 1 << n
            n += 1
            if n == 8:
                out.append(byte)
                byte, n = 0, 0
        if n:
            out.append(byte)
        return bytes(out)
    for v in vals:
        if ptype == "INT32":
            out += struct.pack("<i", v)
        elif ptype == "INT64":
            out += struct.pack("<q", v)
        elif ptype == "FLOAT":
            out += struct.pack("<f", v)
        elif ptype == "DOUBLE":
            out += struct.pack("<d", v)
        elif ptype == "BYTE_ARRAY":
            b = v.encode() if isinstance(v, str) else bytes(v)
            out += struct.pack("<I", len(b)) + b
        else:
            raise ValueError(ptype)
    return bytes(out)


def bit_width(maxval):
    return max(1, maxval.bit_length()) if maxval > 0 else 0


def rle_hybrid(values, width, mode="rle"):
    """RLE / bit-packed hybrid. mode: 'rle' (runs), 'bitpacked' (groups of 8), 'mixed' (alternate)."""
    out = bytearray()
    nbytes = (width + 7) // 8
    i, n, flip = 0, len(values), 0
    while i < n:
        use_bp = mode == "bitpacked" or (mode == "mixed" and flip % 2 == 1)
        flip += 1
        if use_bp and width > 0:
            group = values[i:i + 8]
            take = len(group)
            group = group + [0] * (8 - len(group))
            out += varint((1 << 1) | 1)
            acc, bits = 0, 0
            for v in group:
                acc |= v << bits
                bits += width
            out += acc.to_bytes(width, "little")
            i += take
        else:
            j = i
            while j < n and values[j] == values[i] and (mode != "mixed" or j - i < 3):
                j += 1
            out += varint((j - i) << 1)
            out += values[i].to_bytes(nbytes, "little") if nbytes else b""
            i = j
    return bytes(out)


def _pack_bits(vals, width):
    acc, bits = 0, 0
    for v in vals:
        acc |= v << bits
        bits += width
    return acc.to_bytes((bits + 7) // 8, "little")


JUNK_WIDTHS = False     # widths of unneeded miniblocks: "should be zero, but readers must accept arbitrary values"


def delta_binary_packed(vals, bits=64, block=128, minis=4):
    """DELTA_BINARY_PACKED (Encodings.md #5). vals are signed integers of the given width; deltas wrap in two's
    complement. block is a multiple of 128, block/minis a multiple of 32."""
    assert block % 128 == 0 and block % minis == 0 and (block // minis) % 32 == 0
    mask = (1 << bits) - 1

    def signed(x):
        x &= mask
        return x - (1 << bits) if x >> (bits - 1) else x
    out = bytearray(varint(block) + varint(minis) + varint(len(vals)))
    out += varint(zigzag(vals[0], 64) & ((1 << 64) - 1)) if vals else varint(0)
    deltas = [signed(vals[i] - vals[i - 1]) for i in range(1, len(vals))]
    per = block // minis
    for b in range(0, len(deltas), block):
        blk = deltas[b:b + block]
        mind = min(blk)
        out += varint(zigzag(mind, 64) & ((1 << 64) - 1))
        adj = [(d - mind) & mask for d in blk]
        widths, bodies = [], []
        for m in range(minis):
            mb = adj[m * per:(m + 1) * per]
            if not mb:
                widths.append(7 if JUNK_WIDTHS else 0)
                continue
            w = max(v.bit_length() for v in mb)
            widths.append(w)
            bodies.append(_pack_bits(mb + [0] * (per - len(mb)), w) if w else b"")
        out += bytes(widths)
        for bd in bodies:
            out += bd
    return bytes(out)


LEN_PATCH = None        # fault injection: {"stream": "length" | "prefix" | "suffix", "cls": ...} (see _patch_lens)


def _patch_lens(lens, stream):
    """lie about a length stream of a delta string page (the bytes that follow stay as they are)"""
    if not LEN_PATCH or LEN_PATCH["stream"] != stream or len(lens) < 3:
        return lens
    l, cls = list(lens), LEN_PATCH["cls"]
    if cls == "neg_compensated":        # a negative length made up for by the next one: the sum is unchanged
        k = l[1] + 5
        l[1] -= k
        l[2] += k
    elif cls == "neg":
        l[1] = -3
    elif cls == "huge":
        l[0] = 2 ** 31 - 1
    elif cls == "plus1_first":
        l[0] += 1
    return l


def delta_length_byte_array(vals, stream="length"):
    bs = [v.encode() if isinstance(v, str) else bytes(v) for v in vals]
    return delta_binary_packed(_patch_lens([len(b) for b in bs], stream), 32) + b"".join(bs)


def delta_byte_array(vals):
    bs = [v.encode() if isinstance(v, str) else bytes(v) for v in vals]
    prefix, suffix, prev = [], [], b""
    for b in bs:
        k = 0
        while k < len(b) and k < len(prev) and b[k] == prev[k]:
            k += 1
        prefix.append(k)
        suffix.append(b[k:])
        prev = b
    return delta_binary_packed(_patch_lens(prefix, "prefix"), 32) + delta_length_byte_array(suffix, "suffix")


def byte_stream_split(ptype, vals):
    raw = plain(ptype, vals)
    k = {"INT32": 4, "FLOAT": 4, "INT64": 8, "DOUBLE": 8}[ptype]
    return b"".join(bytes(raw[i * k + j] for i in range(len(vals))) for j in range(k))


# --- self-check: a decoder written from the format text only, used by setup to cross-check the encoders above
def _rd_varint(b, pos):
    n, sh = 0, 0
    while True:
        c = b[pos]
        pos += 1
        n |= (c & 0x7F) << sh
        sh += 7
        if not c & 0x80:
            return n, pos


def _unzig(n):
    return (n >> 1) ^ -(n & 1)


def _dec_dbp(b, pos, bits):
    block, pos = _rd_varint(b, pos)
    minis, pos = _rd_varint(b, pos)
    total, pos = _rd_varint(b, pos)
    first, pos = _rd_varint(b, pos)
    mask = (1 << bits) - 1

    def signed(x):
        x &= mask
        return x - (1 << bits) if x >> (bits - 1) else x
    out = [signed(_unzig(first))] if total else []
    per = block // minis
    while len(out) < total:
        mind, pos = _rd_varint(b, pos)
        mind = _unzig(mind)
        widths = b[pos:pos + minis]
        pos += minis
        for w in widths:
            if len(out) >= total:
                break
            nbytes = (w * per + 7) // 8
            acc = int.from_bytes(b[pos:pos + nbytes], "little")
            pos += nbytes
            for i in range(per):
                if len(out) >= total:
                    break
                d = (acc >> (i * w)) & ((1 << w) - 1) if w else 0
                out.append(signed(out[-1] + d + mind))
            if len(out) >= total:
                break
    return out, pos


def selftest():
    import random
    rng = random.Random(7)
    for bits in (32, 64):
        lo, hi = -(1 << (bits - 1)), (1 << (bits - 1)) - 1
        for n in (0, 1, 2, 31, 32, 33, 127, 128, 129, 130, 257, 700):
            for style in ("seq", "rand", "extreme", "const"):
                v = {"seq": [i * 3 for i in range(n)], "rand": [rng.randint(-1000, 1000) for _ in range(n)],
                     "extreme": [rng.choice([lo, hi, 0, -1, 1]) for _ in range(n)], "const": [5] * n}[style]
                for block, minis in ((128, 4), (256, 8), (128, 1)):
                    got, _ = _dec_dbp(delta_binary_packed(v, bits, block, minis), 0, bits)
                    assert got == v, (bits, n, style, block, minis)
    strs = [b"", b"a", b"ab", b"abc", b"abd", b"x" * 40, b"x" * 39 + b"y", b""]
    enc = delta_length_byte_array(strs)
    lens, pos = _dec_dbp(enc, 0, 32)
    assert lens == [len(x) for x in strs] and enc[pos:] == b"".join(strs)
    enc = delta_byte_array(strs)
    pre, pos = _dec_dbp(enc, 0, 32)
    sl, pos = _dec_dbp(enc, pos, 32)
    out, prev = [], b""
    for k, ln in zip(pre, sl):
        cur = prev[:k] + enc[pos:pos + ln]
        pos += ln
        out.append(cur)
        prev = cur
    assert out == strs and pos == len(enc)
    assert byte_stream_split("INT32", [0x04030201, 0x08070605]) == bytes([1, 5, 2, 6, 3, 7, 4, 8])
    return True


def stat_bytes(ptype, v):
    if ptype == "BOOLEAN":
        return b"\x01" if v else b"\x00"
    if ptype == "BYTE_ARRAY":
        return v.encode() if isinstance(v, str) else bytes(v)
    return plain(ptype, [v])


def compress(codec, b):
    if codec == "GZIP":
        c = zlib.compressobj(6, zlib.DEFLATED, 31)
        return c.compress(b) + c.flush()
    return b


# ----------------------------------------------------------------------------- writer
def write(desc):
    """returns (bytes, regions) where regions maps names to (start, end) byte ranges (for fault plans)"""
    cols = desc["columns"]
    ver = desc.get("page_version", 1)
    codec = desc.get("codec", "UNCOMPRESSED")
    use_dict = desc.get("dictionary", False)
    lmode = desc.get("level_runs", "rle")
    lies = desc.get("lies", {})
    venc_mode = desc.get("value_encoding", "plain")      # "plain" | "delta" | "bss" (non-dictionary pages)
    global JUNK_WIDTHS, LEN_PATCH
    JUNK_WIDTHS = bool(desc.get("delta_junk_widths"))
    LEN_PATCH = lies.get("delta.len_patch")
    buf = io.BytesIO()
    buf.write(b"PAR1")
    regions = {"magic_head": (0, 4)}
    rg_structs = []
    total_rows = 0
    for gi, rg in enumerate(desc["row_groups"]):
        pages = rg["pages"]
        nrows = sum(len(p) for p in pages)
        total_rows += nrows
        chunk_structs = []
        rg_bytes = 0
        for ci, col in enumerate(cols):
            pt = col["type"]
            opt = col.get("optional", True)
            colvals = [r[ci] for p in pages for r in p]
            nonnull = [v for v in colvals if v is not None]
            start = buf.tell()
            dict_off = None
            dictionary = None
            unc_total, comp_total = 0, 0
            encs = {ENC_RLE}
            if use_dict and pt != "BOOLEAN":
                dictionary = []
                for v in nonnull:
                    if v not in dictionary:
                        dictionary.append(v)
                body = plain(pt, dictionary)
                cbody = compress(codec, body)
                hdr = TStruct([(1, CT_I32, 2), (2, CT_I32, len(body)), (3, CT_I32, len(cbody)),
                               (7, CT_STRUCT, TStruct([(1, CT_I32, lies.get("dict.num_values", len(dictionary))), (2, CT_I32, ENC_PLAIN)]))]).encode()
                dict_off = buf.tell()
                regions[f"rg{gi}.c{ci}.dict_header"] = (buf.tell(), buf.tell() + len(hdr))
                buf.write(hdr)
                regions[f"rg{gi}.c{ci}.dict_data"] = (buf.tell(), buf.tell() + len(cbody))
                buf.write(cbody)
                unc_total += len(hdr) + len(body)
                comp_total += len(hdr) + len(cbody)
                encs.add(ENC_PLAIN)
            data_off = buf.tell()
            for pi, page in enumerate(pages):
                vals = [r[ci] for r in page]
                nn = [v for v in vals if v is not None]
                levels = [0 if v is None else 1 for v in vals]
                if dictionary is not None:
                    idx = [dictionary.index(v) for v in nn]
                    w = bit_width(max(len(dictionary) - 1, 0))
                    vbytes = bytes([w]) + rle_hybrid(idx, w, lmode)
                    venc = ENC_RLE_DICT
                elif pt == "BOOLEAN" and desc.get("bool_rle"):
                    r = rle_hybrid([1 if v else 0 for v in nn], 1, lmode)
                    vbytes = struct.pack("<I", len(r)) + r
                    venc = ENC_RLE
                elif venc_mode in ("delta", "delta+bss") and pt in ("INT32", "INT64"):
                    blk, mn = desc.get("delta_block", (128, 4))
                    vbytes = delta_binary_packed(nn, 32 if pt == "INT32" else 64, blk, mn)
                    venc = ENC_DELTA_BINARY_PACKED
                elif venc_mode in ("delta", "delta+bss") and pt == "BYTE_ARRAY":
                    if desc.get("delta_strings", "length") == "length":
                        vbytes, venc = delta_length_byte_array(nn), ENC_DELTA_LENGTH_BYTE_ARRAY
                    else:
                        vbytes, venc = delta_byte_array(nn), ENC_DELTA_BYTE_ARRAY
                elif (venc_mode == "bss" and pt in ("INT32", "INT64", "FLOAT", "DOUBLE")) or (venc_mode == "delta+bss" and pt in ("FLOAT", "DOUBLE")):
                    vbytes, venc = byte_stream_split(pt, nn), ENC_BYTE_STREAM_SPLIT
                else:
                    vbytes = plain(pt, nn)
                    venc = ENC_PLAIN
                encs.add(venc)
                lv = rle_hybrid(levels, 1, lmode) if opt else b""
                if ver == 1:
                    body = (struct.pack("<I", len(lv)) + lv if opt else b"") + vbytes
                    cbody = compress(codec, body)
                    dph = TStruct([(1, CT_I32, lies.get("page.num_values", len(vals))), (2, CT_I32, venc), (3, CT_I32, ENC_RLE), (4, CT_I32, ENC_RLE)])
                    hdr = TStruct([(1, CT_I32, 0), (2, CT_I32, lies.get("page.uncompressed_size", len(body))),
                                   (3, CT_I32, lies.get("page.compressed_size", len(cbody))), (5, CT_STRUCT, dph)]).encode()
                else:
                    cvals = compress(codec, vbytes)
                    body_unc = lv + vbytes
                    cbody = lv + cvals
                    dph = TStruct([(1, CT_I32, lies.get("page.num_values", len(vals))), (2, CT_I32, len(vals) - len(nn)), (3, CT_I32, len(vals)),
                                   (4, CT_I32, venc), (5, CT_I32, lies.get("page.def_levels_len", len(lv))), (6, CT_I32, 0),
                                   (7, CT_TRUE, codec != "UNCOMPRESSED")])
                    hdr = TStruct([(1, CT_I32, 3), (2, CT_I32, lies.get("page.uncompressed_size", len(body_unc))),
                                   (3, CT_I32, lies.get("page.compressed_size", len(cbody))), (8, CT_STRUCT, dph)]).encode()
                    body = body_unc
                regions[f"rg{gi}.c{ci}.p{pi}.header"] = (buf.tell(), buf.tell() + len(hdr))
                buf.write(hdr)
                regions[f"rg{gi}.c{ci}.p{pi}.data"] = (buf.tell(), buf.tell() + len(cbody))
                buf.write(cbody)
                unc_total += len(hdr) + len(body)
                comp_total += len(hdr) + len(cbody)
            # statistics
            st = rg.get("stats", {}).get(ci, "exact")
            stats = None
            if st != "absent":
                if st == "exact":
                    st = {"min": min(nonnull) if nonnull else None, "max": max(nonnull) if nonnull else None,
                          "null_count": len(colvals) - len(nonnull)}
                f = []
                if st.get("max") is not None:
                    f.append((5, CT_BINARY, stat_bytes(pt, st["max"])))
                    if not st.get("new_only"):
                        f.append((1, CT_BINARY, stat_bytes(pt, st["max"])))
                if st.get("min") is not None:
                    f.append((6, CT_BINARY, stat_bytes(pt, st["min"])))
                    if not st.get("new_only"):
                        f.append((2, CT_BINARY, stat_bytes(pt, st["min"])))
                if st.get("null_count") is not None:
                    f.append((3, CT_I64, st["null_count"]))
                stats = TStruct(f)
            md = TStruct([(1, CT_I32, PTYPE[pt]), (2, CT_LIST, (CT_I32, sorted(encs))), (3, CT_LIST, (CT_BINARY, [col["name"]])),
                          (4, CT_I32, CODEC[codec]), (5, CT_I64, lies.get("chunk.num_values", len(colvals))),
                          (6, CT_I64, lies.get("chunk.total_uncompressed_size", unc_total)),
                          (7, CT_I64, lies.get("chunk.total_compressed_size", comp_total)),
                          (9, CT_I64, lies.get("chunk.data_page_offset", data_off)),
                          (11, CT_I64, lies.get("chunk.dictionary_page_offset", dict_off) if dict_off is not None else None),
                          (12, CT_STRUCT, stats)])
            chunk_structs.append(TStruct([(2, CT_I64, lies.get("chunk.file_offset", start)), (3, CT_STRUCT, md)]))
            rg_bytes += comp_total
        rg_structs.append(TStruct([(1, CT_LIST, (CT_STRUCT, chunk_structs)), (2, CT_I64, lies.get("rg.total_byte_size", rg_bytes)),
                                   (3, CT_I64, lies.get("rg.num_rows", nrows))]))
    schema = [TStruct([(4, CT_BINARY, "schema"), (5, CT_I32, lies.get("schema.num_children", len(cols)))])]
    for col in cols:
        schema.append(TStruct([(1, CT_I32, PTYPE[col["type"]]), (3, CT_I32, 1 if col.get("optional", True) else 0), (4, CT_BINARY, col["name"]),
                               (6, CT_I32, CONVERTED[col["converted"]] if col.get("converted") else None)]))
    fmd = TStruct([(1, CT_I32, lies.get("file.version", 1)), (2, CT_LIST, (CT_STRUCT, schema)), (3, CT_I64, lies.get("file.num_rows", total_rows)),
                   (4, CT_LIST, (CT_STRUCT, rg_structs)), (6, CT_BINARY, "verif-pqwrite")]).encode()
    regions["footer"] = (buf.tell(), buf.tell() + len(fmd))
    buf.write(fmd)
    regions["footer_len"] = (buf.tell(), buf.tell() + 4)
    buf.write(struct.pack("<I", lies.get("file.footer_len", len(fmd)) & 0xFFFFFFFF))
    regions["magic_tail"] = (buf.tell(), buf.tell() + 4)
    buf.write(b"PAR1")
    return buf.getvalue(), regions
