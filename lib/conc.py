"""Concurrency traces: turn the hook events recorded by vdriver into per-protocol traces
(order-preserving projections by logged keys - no inference) and validate them with TLC."""
import json, os
import vlib


def split_statements(events):
    """events of one vdriver case -> list of (stmt index, [events])"""
    out, cur, idx = [], [], None
    for e in events:
        if e.get("ev") == "Stmt":
            if cur:
                out.append((idx, cur))
            cur, idx = [], e.get("i")
        else:
            cur.append(e)
    if cur:
        out.append((idx, cur))
    return out


def stmt_of_events(events):
    """Annotate each event with the index of the statement that was current when it was recorded."""
    cur = None
    out = []
    for e in events:
        if e.get("ev") == "Stmt":
            cur = e.get("i")
            continue
        out.append((cur, e))
    return out


def task_trace(events, failed_stmts):
    """TraceTask.tla lines for one vdriver case. Tasks carry unique ids; a task belongs to the
    statement that was current at its first event (spawn_pipelines runs on the session thread);
    its later events may be recorded while a later statement is already running."""
    ids, task_failed = {}, {}
    lines = []
    for stmt, e in stmt_of_events(events):
        if not e["ev"].startswith("Task"):
            continue
        if e["task"] not in ids:
            ids[e["task"]] = len(ids) + 1
            task_failed[ids[e["task"]]] = stmt in failed_stmts
        t = ids[e["task"]]
        st = [int(bool(e.get(k, False))) for k in ("running", "pending", "completed", "canceled")]
        lines.append({"ev": e["ev"], "t": t, "branch": e.get("branch", ""), "st": st,
                      "result": e.get("result", ""), "nt": 0, "ntmax": 0, "failed": []})
    if not lines:
        return []
    return [{"ev": "Header", "t": 0, "branch": "", "st": [0, 0, 0, 0], "result": "", "nt": len(ids),
             "ntmax": len(ids), "failed": [t for t in sorted(task_failed) if task_failed[t]]}] + lines


def join_task_traces(traces):
    """Concatenate per-case task traces; the first header carries the maximum task count."""
    out = [l for t in traces for l in t]
    if out:
        out[0] = dict(out[0], ntmax=max(l["nt"] for l in out))
    return out


class ObjMap:
    """object address -> (block, label), valid for ONE object lifetime. Addresses are reused after an operator is freed, and
    the primitives of other operator kinds emit the same events: a DelayedPartitionCount is set exactly once and a
    PartitionWakers initialised exactly once in its life, so a second CountSet / WakersInit on a registered address
    means a new object lives there now and the registration is dropped."""

    def __init__(self):
        self.m, self.init_seen = {}, set()

    def register(self, addr, blk, lab):
        self.m[addr] = (blk, lab)
        self.init_seen.discard(addr)

    def lookup(self, e):
        addr = e.get("obj")
        if addr not in self.m:
            return None
        if e["ev"] in ("CountSet", "WakersInit"):
            if addr in self.init_seen:
                del self.m[addr]
                self.init_seen.discard(addr)
                return None
            self.init_seen.add(addr)
        return self.m[addr]


HJ_LABELS = ("rem_ins", "rem_prob", "pend_ins", "pend_prob", "pend_drain")


def hashjoin_traces(events, failed_stmts):
    """TraceHashJoin.tla lines for one vdriver case: one block per hash join operator instance.
    An OpInit starts a new instance at that operator address; object addresses resolve to the
    most recent instance that registered them."""
    blocks, cur_of_op, obj2 = [], {}, ObjMap()
    norm = lambda ev, lab="", ps=(), n=0, p=0, f=(0, 0, 0), parts=0, failed=False: {
        "ev": ev, "lab": lab, "ps": list(ps), "n": n, "p": p, "f": list(f), "parts": parts, "failed": failed}
    for stmt, e in stmt_of_events(events):
        ev = e["ev"]
        if ev == "OpInit" and e.get("kind") == "hash_join":
            blk = [norm("OpInit", e.get("join_type", ""), parts=e["partitions"], failed=stmt in failed_stmts)]
            blocks.append(blk)
            cur_of_op[e["op"]] = blk
            for lab in HJ_LABELS:
                obj2.register(e[lab], blk, lab)
        elif ev == "WakersInit":
            obj2.lookup(e)
        elif ev in ("Store", "WakeAll", "Wake") and obj2.lookup(e):
            blk, lab = obj2.lookup(e)
            blk.append(norm(ev, lab, ps=e["ps"]))
        elif ev in ("CountSet", "CountDec") and e.get("obj") in obj2.m:
            hit = obj2.lookup(e)
            if hit:
                blk, lab = hit
                blk.append(norm(ev, lab, n=e["n"]))
        elif ev == "Flag" and e.get("op") in cur_of_op:
            cur_of_op[e["op"]].append(norm("Flag", e["what"], p=e.get("p", 0)))
        elif ev == "Pass" and e.get("kind") is None and e.get("op") in cur_of_op:
            cur_of_op[e["op"]].append(norm("Pass", e["what"], p=e["p"],
                                           f=[int(e["ins_ready"]), int(e["scan_ready"]), int(e["drain_ready"])]))
    return [l for blk in blocks for l in blk]


HA_LABELS = ("remaining_normal", "remaining_distinct_mergers", "remaining_distinct_aggregators", "remaining_mergers",
             "pending_distinct_mergers", "pending_distinct_aggregators", "pending_mergers", "pending_drainers")


def hashagg_traces(events, failed_stmts):
    """TraceHashAgg.tla lines for one vdriver case: one block per hash aggregate operator instance (as hashjoin_traces)."""
    blocks, cur_of_op, obj2 = [], {}, ObjMap()
    norm = lambda ev, lab="", ps=(), n=0, p=0, c=(0, 0, 0, 0), parts=0, distinct=False, failed=False: {
        "ev": ev, "lab": lab, "ps": list(ps), "n": n, "p": p, "c": list(c), "parts": parts, "distinct": distinct, "failed": failed}
    for stmt, e in stmt_of_events(events):
        ev = e["ev"]
        if ev == "OpInit" and e.get("kind") == "hash_aggregate":
            blk = [norm("OpInit", parts=e["partitions"], distinct=bool(e["distinct"]), failed=stmt in failed_stmts)]
            blocks.append(blk)
            cur_of_op[e["op"]] = blk
            for lab in HA_LABELS:
                obj2.register(e[lab], blk, lab)
        elif ev == "WakersInit":
            obj2.lookup(e)
        elif ev in ("Store", "WakeAll") and obj2.lookup(e) and obj2.lookup(e)[1].startswith("pending"):
            blk, lab = obj2.lookup(e)
            blk.append(norm(ev, lab, ps=e["ps"]))
        elif ev in ("CountSet", "CountDec") and e.get("obj") in obj2.m:
            hit = obj2.lookup(e)
            if hit and hit[1].startswith("remaining"):
                blk, lab = hit
                blk.append(norm(ev, lab, n=e["n"]))
        elif ev == "Flush" and e.get("kind") == "hash_aggregate" and e.get("op") in cur_of_op:
            cur_of_op[e["op"]].append(norm("Flush", "finalize", p=e["p"], n=1 if e.get("locked") else 0))
        elif ev == "Pass" and e.get("kind") == "hash_aggregate" and e.get("op") in cur_of_op:
            cur_of_op[e["op"]].append(norm("Pass", e["what"], p=e["p"], c=[e["rn"], e["rdm"], e["rda"], e["rm"]]))
    return [l for blk in blocks for l in blk]


def sortmerge_traces(events, failed_stmts):
    """TraceSortMerge.tla lines for one vdriver case: one block per sort merge queue instance (by queue address)."""
    blocks, cur_of_q, obj2 = [], {}, ObjMap()
    norm = lambda ev, ps=(), n=0, p=0, runs=0, running=0, some=False, parts=0, failed=False: {
        "ev": ev, "ps": list(ps), "n": n, "p": p, "runs": runs, "running": running, "some": some, "parts": parts, "failed": failed}
    for stmt, e in stmt_of_events(events):
        ev = e["ev"]
        if ev == "MqInit":
            blk = [norm("MqInit", parts=e["partitions"], failed=stmt in failed_stmts)]
            blocks.append(blk)
            cur_of_q[e["q"]] = blk
            obj2.register(e["count"], blk, "count")
            obj2.register(e["wakers"], blk, "wakers")
        elif ev == "WakersInit":
            obj2.lookup(e)
        elif ev in ("Store", "WakeAll") and obj2.lookup(e) and obj2.lookup(e)[1] == "wakers":
            obj2.lookup(e)[0].append(norm(ev, ps=e["ps"]))
        elif ev in ("CountSet", "CountDec") and e.get("obj") in obj2.m:
            hit = obj2.lookup(e)
            if hit and hit[1] == "count":
                hit[0].append(norm(ev, n=e["n"]))
        elif ev in ("MqAdd", "MqTake2", "MqDone", "MqFinished", "MqTakeRun") and e.get("q") in cur_of_q:
            cur_of_q[e["q"]].append(norm(ev, n=e.get("n", 0), p=e.get("p", 0), runs=e["runs"], running=e["running"], some=bool(e.get("some", False))))
    return [l for blk in blocks for l in blk]


def generic_primitive_lines(case_traces):
    """TracePrims.tla lines: all primitive events of several vdriver cases, objects numbered per case
    (an object address is only meaningful within one statement: a Begin line resets the model)."""
    out = []
    no = 0
    for events in case_traces:
        objs = {}
        out.append({"ev": "Begin", "o": 0, "ps": [], "n": 0, "no": 0})
        for stmt, e in stmt_of_events(events):
            if e["ev"] in ("Store", "WakeAll", "Wake", "CountSet", "CountDec", "WakersInit") and "obj" in e:
                o = objs.setdefault(e["obj"], len(objs) + 1)
                no = max(no, o)
                out.append({"ev": e["ev"], "o": o, "ps": [] if e["ev"] == "WakersInit" else e.get("ps", []), "n": e.get("n", 0), "no": 0})
    if out:
        out[0] = dict(out[0], no=no)
    return out


def validate(rep, module, lines, name, label):
    """Run a stateful trace spec over lines; returns list of mismatch dicts (with 'line' = the offending record)."""
    if not lines:
        return []
    wd = os.path.join(vlib.WORK, name)
    os.makedirs(wd, exist_ok=True)
    path = os.path.join(wd, f"{module}.ndjson")
    vlib.write_ndjson(path, lines)
    cfg = "SPECIFICATION TSpec\nPOSTCONDITION Accepted\nCHECK_DEADLOCK FALSE\n"
    r = vlib.tlc(module, cfg, name, env={"TRACE": path}, workers=1, timeout=900, deque=True, heap="3g")
    if r.error or not r.ok:
        rep.tool_error(f"trace validation {module} ({label}): {r.error or r.violated}: {r.out[-1000:]}")
        return []
    rep.add_tlc(r, f"TV {label}", trace_lines=len(lines))
    mm = [p for p in r.printed if isinstance(p, dict) and "mismatch" in p]
    for m in mm:
        i = m["mismatch"]
        if isinstance(i, int) and 1 <= i <= len(lines):
            m["line"] = lines[i - 1]
            m["context"] = lines[max(0, i - 6):i]
    return mm
