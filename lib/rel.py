"""Relational families (C01-C03, C06-C09): TLC-generated (query, database) cases are
rendered to SQL, executed by vdriver under a configuration, and the observations are
judged by TLC against spec/Algebra.tla through spec/TraceRel.tla."""
import json, os, itertools, random, concurrent.futures, copy
import vlib, sqlgen

UNSUPPORTED_PAT = ("not yet implemented", "not implemented", "not yet supported", "not supported", "unsupported",
                   "unimplemented")


def gen(module, consts, name, workers=4, timeout=300, extra_cfg="", args=()):
    cfg = "INIT Init\nNEXT Next\nINVARIANT Emit\nCHECK_DEADLOCK FALSE\nCONSTANTS\n" + \
          "\n".join(f"  {k} = {v}" for k, v in consts.items()) + "\n" + extra_cfg
    r = vlib.tlc(module, cfg, name, workers=workers, timeout=timeout, args=args)
    if r.error or not r.ok:
        raise vlib.ToolError(f"generator {module} failed: {r.error or r.violated}\n{r.out[-1500:]}")
    return r


def cfg_steps(cfg):
    s = []
    for k in ("partitions", "batch_size"):
        if k in cfg:
            s.append(f"SET {k} = {cfg[k]}")
    if "hash_joins" in cfg:
        s.append(f"SET enable_hash_joins = {'true' if cfg['hash_joins'] else 'false'}")
    if "optimizer" in cfg:
        s.append(f"SET enable_optimizer = {'true' if cfg['optimizer'] else 'false'}")
    return s


def cfg_rt(cfg):
    if cfg.get("det"):
        rt = {"kind": "det", "partitions": cfg.get("partitions", 2)}
        rt.update(cfg["det"])
        return rt
    return {"kind": "threaded", "threads": cfg.get("threads", 2)}


def classify_error(msg):
    m = (msg or "").lower()
    return "unsupported" if any(p in m for p in UNSUPPORTED_PAT) else "error"


def obs_record(step, style=None):
    """One statement's observation -> the obs record of a trace line."""
    o = step[-1] if step else {"outcome": "missing"}
    out = o.get("outcome")
    rec = {"outcome": out, "rows": [], "cls": [], "schema": [], "btypes": [], "sbase": [],
           "variants": [], "msg": "", "names": []}
    if out == "rows":
        rec["names"] = [n for n, _ in o["schema"]]
        rec["rows"] = sqlgen.enc_rows(o["rows"], style)
        rec["schema"] = [t for _, t in o["schema"]]
        rec["cls"] = [sqlgen.type_class(t) for _, t in o["schema"]]
        rec["btypes"] = o["btypes"]
        rec["sbase"] = [t.split("(")[0] for _, t in o["schema"]]
        rec["variants"] = o["variants"] + [[] for _ in range(len(o["schema"]) - len(o["variants"]))]
    elif out == "error":
        rec["outcome"] = classify_error(o.get("msg"))
        rec["msg"] = (o.get("msg") or "")[:300]
    else:
        rec["msg"] = (o.get("msg") or "")[:300]
    return rec


def has_unencodable(rows):
    for r in rows:
        for v in r:
            if v and isinstance(v[0], str):
                return True
    return False


class RelRun:
    """Accumulates (query, db, config) cases, executes, judges."""

    def __init__(self, rep, fam, nworkers=14, case_timeout=20):
        self.rep = rep
        self.fam = fam
        self.items = []       # dicts: id, tag, q, db(name->{names,cols,rows}), cfg, style, sql
        self.pairs = []       # (item id, item id): same statement under two configurations
        self.nworkers = nworkers
        self.case_timeout = case_timeout
        self.unrenderable = 0

    def add(self, tag, q, db, cfg, style=None, admit_error=False, extra=None):
        dbc = {t: {"names": d["names"], "cols": d["cols"]} for t, d in db.items()}
        try:
            sql = sqlgen.render_query(q, dbc, style)
        except sqlgen.Unrenderable:
            self.unrenderable += 1
            return None
        it = {"id": len(self.items), "tag": tag, "q": q, "db": db, "cfg": cfg, "style": style or {},
              "sql": sql, "admit_error": admit_error}
        if extra:
            it.update(extra)
        self.items.append(it)
        return it

    def execute(self):
        # group by (db, cfg, style) -> one vdriver case (one session) with many queries
        groups = {}
        for it in self.items:
            key = json.dumps([it["db"], it["cfg"], it["style"], it.get("knobs")], sort_keys=True)
            groups.setdefault(key, []).append(it)
        cases = []
        for gi, (key, its) in enumerate(groups.items()):
            first = its[0]
            steps = [{"sql": s} for s in sqlgen.db_setup_sql(first["db"], first["style"])]
            steps += [{"sql": s} for s in cfg_steps(first["cfg"])]
            nsetup = len(steps)
            for it in its:
                st = {"sql": it["sql"], "sched": True}
                steps.append(st)
            cases.append({"id": gi, "rt": cfg_rt(first["cfg"]), "steps": steps, "knobs": first.get("knobs") or {},
                          "_its": [it["id"] for it in its], "_nsetup": nsetup,
                          "timeout": self.case_timeout})
        drv = vlib.Driver(nworkers=self.nworkers, case_timeout=self.case_timeout)
        send = [{k: v for k, v in c.items() if not k.startswith("_")} for c in cases]
        t0 = vlib.time.time()
        results = drv.run(send)
        vlib.log(f"[exec] {self.fam}: {len(self.items)} statements in {len(cases)} sessions, "
                 f"{vlib.time.time()-t0:.1f}s")
        for c, res in zip(cases, results):
            ids = c["_its"]
            if res is None or "steps" not in res:
                # abort / timeout: attribute to the first unanswered query by re-running singly
                why = "abort" if res and res.get("abort") else "timeout" if res and res.get("timeout") else "fatal"
                vlib.log(f"[exec] session {c['id']} ended with {why}; isolating {len(ids)} statements")
                self._isolate(c, res, why)
                continue
            steps = res["steps"]
            bad_setup = [s for s in steps[:c["_nsetup"]] if s and s[-1].get("outcome") != "rows"]
            for k, iid in enumerate(ids):
                it = self.items[iid]
                if bad_setup:
                    it["obs"] = {"outcome": "setup_failed", "rows": [], "cls": [], "schema": [],
                                 "btypes": [], "sbase": [], "variants": [],
                                 "msg": json.dumps(bad_setup[0])[:300]}
                    continue
                idx = c["_nsetup"] + k
                it["obs"] = obs_record(steps[idx] if idx < len(steps) else [], it["style"])
                if idx < len(steps) and steps[idx] and "sched" in steps[idx][-1]:
                    it["sched"] = steps[idx][-1]["sched"]

    def _isolate(self, case, res, why):
        """A worker died or hung somewhere in this case: re-run each query on its own."""
        ids = case["_its"]
        setup = case["steps"][:case["_nsetup"]]
        singles = []
        for k, iid in enumerate(ids):
            singles.append({"id": iid, "rt": case["rt"], "knobs": case.get("knobs") or {}, "steps": setup + [case["steps"][case["_nsetup"] + k]],
                            "timeout": self.case_timeout})
        drv = vlib.Driver(nworkers=self.nworkers, case_timeout=self.case_timeout)
        results = drv.run(singles)
        for s, r in zip(singles, results):
            it = self.items[s["id"]]
            if r is not None and "steps" in r:
                it["obs"] = obs_record(r["steps"][-1], it["style"])
            else:
                w = "abort" if r and r.get("abort") else "timeout" if r and r.get("timeout") else "fatal"
                msg = ""
                if r:
                    msg = " || ".join([p for p in r.get("panic", []) if p]) or r.get("stderr_tail", "")[-300:]
                it["obs"] = {"outcome": w, "rows": [], "cls": [], "schema": [], "btypes": [],
                             "sbase": [], "variants": [], "msg": msg[:300]}

    def trace_line(self, it):
        db = {t: d["rows"] for t, d in it["db"].items()}
        dbc = {t: d["cols"] for t, d in it["db"].items()}
        obs = dict(it["obs"])
        return {"id": it["id"], "q": it["q"], "db": db, "dbc": dbc, "admit_error": it["admit_error"],
                "obs": obs, "alt": known_defect_semantics(it["q"])}

    def judge(self, chunk=4000, par=6, timeout=1800):
        """TLC trace validation; returns list of mismatch dicts keyed by item id."""
        wd = os.path.join(vlib.WORK, f"{self.rep.prop}-{self.fam}")
        os.makedirs(wd, exist_ok=True)
        pre_mismatch = []
        lines = []
        for it in self.items:
            o = it["obs"]
            if o["outcome"] == "rows" and has_unencodable(o["rows"]):
                # value outside the spec's domain: cannot be a correct answer for these families
                pre_mismatch.append({"mismatch": it["id"], "why": "value-domain", "exp": None})
                continue
            lines.append(self.trace_line(it))
        for k, (ia, ib) in enumerate(self.pairs):
            a, b = self.items[ia], self.items[ib]
            if any(x["obs"]["outcome"] == "rows" and has_unencodable(x["obs"]["rows"]) for x in (a, b)):
                continue
            ln = self.trace_line(a)
            del ln["obs"]
            ln["alt"] = {"k": "none"}
            ln["id"] = 1000000000 + k
            ln["a"], ln["b"] = a["obs"], b["obs"]
            ln["admit_error"] = a["admit_error"] or a.get("admit_pair_error", False)
            lines.append(ln)
        # chunk by estimated judging cost (the reference evaluator is polynomial in table sizes)
        def scans(q, acc):
            if isinstance(q, dict):
                if q.get("k") == "scan":
                    acc.append(q["t"])
                for v in q.values():
                    scans(v, acc)
            elif isinstance(q, list):
                for v in q:
                    scans(v, acc)
            return acc

        def cost(line):
            sizes = [len(line["db"].get(t, [])) + 1 for t in scans(line["q"], [])] or [1]
            if len(sizes) >= 2:
                c = 1
                for x in sorted(sizes, reverse=True)[:3]:
                    c *= x
            else:
                c = sizes[0] * sizes[0] // 8
            return 10 + c
        lines.sort(key=cost)
        chunks, cur, curcost = [], [], 0
        budget = 40000
        for ln in lines:
            c = cost(ln)
            if cur and (curcost + c > budget or len(cur) >= chunk):
                chunks.append(cur)
                cur, curcost = [], 0
            cur.append(ln)
            curcost += c
        if cur:
            chunks.append(cur)
        cfg = "SPECIFICATION TSpec\nPOSTCONDITION Accepted\nCHECK_DEADLOCK FALSE\n"
        mism = list(pre_mismatch)

        def one(ci):
            path = os.path.join(wd, f"trace{ci}.ndjson")
            vlib.write_ndjson(path, chunks[ci])
            r = vlib.tlc("TraceRel", cfg, f"{self.rep.prop}-{self.fam}-tv{ci}", env={"TRACE": path},
                         workers=1, timeout=timeout, deque=True, heap="3g")
            return ci, r
        with concurrent.futures.ThreadPoolExecutor(max_workers=par) as ex:
            for ci, r in ex.map(one, range(len(chunks))):
                if r.error or not r.ok:
                    self.rep.tool_error(f"trace validation {self.fam} chunk {ci}: "
                                        f"{r.error or r.violated}: {r.out[-800:]}")
                    continue
                self.rep.add_tlc(r, f"TV {self.fam}#{ci}", trace_lines=len(chunks[ci]))
                mism += [p for p in r.printed if isinstance(p, dict) and "mismatch" in p]
        return mism

    def report(self, mism, sig_extra=None, nontrivial=None):
        rep = self.rep
        byid = {m["mismatch"]: m for m in mism}
        for mid, m in byid.items():
            if mid >= 1000000000:
                ia, ib = self.pairs[mid - 1000000000]
                a, b = self.items[ia], self.items[ib]
                sig = {"family": self.fam, "tag": a["tag"].split("@")[0], "why": m["why"],
                       "a": a["obs"]["outcome"], "b": b["obs"]["outcome"]}
                sig.update({k: v for k, v in case_features(a, m).items() if k != "delta"})
                for side, x in (("a", a), ("b", b)):
                    if x["obs"]["outcome"] in ("panic", "abort", "error"):
                        sig["msg_" + side] = vlib.re.sub(r"\d+", "#", x["obs"].get("msg", ""))[:160]
                self.rep.mismatch(sig, {"sql": a["sql"], "db": {t: d["rows"] for t, d in a["db"].items()},
                                        "setup": sqlgen.db_setup_sql(a["db"], a["style"]),
                                        "cfg_a": a["cfg"], "cfg_b": b["cfg"], "sql_b": b["sql"],
                                        "observed_a": a["obs"], "observed_b": b["obs"]})
        fam = rep.cov["families"].setdefault(self.fam, {"cases": 0, "rows": 0, "unsupported": 0,
                                                        "mismatches": 0, "unrenderable": 0})
        fam["unrenderable"] += self.unrenderable
        seen = set()
        for it in self.items:
            o = it["obs"]
            fam["cases"] += 1
            rep.cov["evaluations"] += 1
            if o["outcome"] == "unsupported":
                fam["unsupported"] += 1
            if o["outcome"] == "rows":
                fam["rows"] += 1
                key = json.dumps([it["q"], it["db"]], sort_keys=True)
                if key not in seen and (nontrivial(it) if nontrivial else len(o["rows"]) > 0):
                    seen.add(key)
            if len(rep.cov["samples"]) < 3 and o["outcome"] == "rows" and o["rows"]:
                rep.cov["samples"].append({"family": self.fam, "tag": it["tag"], "sql": it["sql"],
                                           "db": {t: d["rows"] for t, d in it["db"].items()},
                                           "cfg": it["cfg"], "observed_rows": o["rows"]})
            m = byid.get(it["id"])
            if m is None:
                continue
            fam["mismatches"] += 1
            sig = {"family": self.fam, "tag": it["tag"].split("@")[0], "why": m["why"]}
            sig.update(case_features(it, m))
            if m.get("altok"):
                sig["alt_known_semantics"] = True
            if m["why"] == "outcome":
                sig["observed"] = o["outcome"]
                if o["outcome"] in ("panic", "abort", "error"):
                    sig["msg"] = vlib.re.sub(r"\d+", "#", o.get("msg", ""))[:160]
            if sig_extra:
                sig.update(sig_extra(it, m))
            detail = {"sql": it["sql"], "db": {t: d["rows"] for t, d in it["db"].items()},
                      "setup": sqlgen.db_setup_sql(it["db"], it["style"]) + cfg_steps(it["cfg"]),
                      "cfg": it["cfg"], "expected": m.get("exp"), "observed": o, "mode": m.get("mode"),
                      "sched": it.get("sched")}
            rep.mismatch(sig, detail)
        rep.cov["distinct_nontrivial"] += len(seen)


def _has_scalar_sub(e):
    if isinstance(e, dict):
        return e.get("k") == "scalar" or any(_has_scalar_sub(v) for v in e.values())
    if isinstance(e, list):
        return any(_has_scalar_sub(v) for v in e)
    return False


def _streams_leftjoin(q):
    """Is there a LEFT join reachable from q through streaming (non-blocking) operators?"""
    k = q.get("k")
    if k == "join":
        return q["jt"] == "left" or _streams_leftjoin(q["l"]) or _streams_leftjoin(q["r"])
    if k in ("filter", "project"):
        # a scalar subquery in the select list / predicate is planned as a LEFT (magic) join feeding this operator
        exprs = q.get("es") or [q.get("p")]
        if any(_has_scalar_sub(e) for e in exprs):
            return True
        return _streams_leftjoin(q["c"])
    if k == "union":
        return _streams_leftjoin(q["l"]) or _streams_leftjoin(q["r"])
    if k == "with":
        return _streams_leftjoin(q["c"])
    return False


def _corr(q):
    r = sqlgen.Renderer({})
    return r.has_outer(q)


def known_defect_semantics(q):
    """The query rewritten to the semantics of two recorded findings (KF-IN-NULL-MARK: IN / ANY / ALL over a
    subquery are two-valued - unknown becomes false for IN/ANY and true for ALL; KF-SCALAR-COUNT-NULL: a
    correlated scalar count(*) / count(x) yields NULL instead of 0). Returns {"k": "none"} if q has neither."""
    changed = [False]
    T = {"k": "lit", "v": [1], "c": "b"}
    F = {"k": "lit", "v": [0], "c": "b"}

    def rw(x):
        if isinstance(x, dict):
            y = {k: rw(v) for k, v in x.items()}
            k = x.get("k")
            if k == "insub" or (k == "quant" and not x["all"]):
                changed[0] = True
                return {"k": "coalesce", "args": [y, F]}
            if k == "quant" and x["all"]:
                changed[0] = True
                return {"k": "coalesce", "args": [y, T]}
            if k == "scalar" and x["q"].get("k") == "agg" and not x["q"]["keys"] and \
               x["q"]["aggs"][0]["f"] == "count" and _corr(x["q"]):
                # NULL instead of 0 exactly when the correlated input of the aggregate is empty
                changed[0] = True
                return {"k": "case", "whens": [{"c": {"k": "exists", "q": y["q"]["c"]}, "t": y}],
                        "els": {"k": "lit", "v": [], "c": "i"}}
            if k == "join" and x.get("lateral") and x["jt"] in ("cross", "inner") and x["r"].get("k") == "agg" and \
               not x["r"]["keys"] and _corr(x["r"]):
                # a lateral ungrouped aggregate loses the outer rows whose correlated input is empty
                changed[0] = True
                return dict(y, l={"k": "filter", "c": y["l"], "p": {"k": "exists", "q": y["r"]["c"]}})
            return y
        if isinstance(x, list):
            return [rw(v) for v in x]
        return x
    alt = rw(q)
    return alt if changed[0] else {"k": "none"}


def has_filter_agg(x):
    if isinstance(x, dict):
        if x.get("k") == "agg" and any(a["filt"]["k"] != "none" for a in x["aggs"]):
            return True
        return any(has_filter_agg(v) for v in x.values())
    if isinstance(x, list):
        return any(has_filter_agg(v) for v in x)
    return False


def limit_over_leftjoin(x):
    if isinstance(x, dict):
        if x.get("k") == "limit" and x["c"].get("k") != "sort" and _streams_leftjoin(x["c"]):
            return True
        return any(limit_over_leftjoin(v) for v in x.values())
    if isinstance(x, list):
        return any(limit_over_leftjoin(v) for v in x)
    return False


def _flat(e, k):
    if isinstance(e, dict) and e.get("k") == k:
        return _flat(e["l"], k) + _flat(e["r"], k)
    return [e]


def has_or_absorption(q):
    """the query holds an OR one of whose branches consists only of conjuncts common to ALL branches while another branch
    has more (a OR (a AND b), (a AND b) OR (a AND b AND c), ...): the trigger of KF-DISTRIBUTIVE-OR-ABSORPTION"""
    if isinstance(q, list):
        return any(has_or_absorption(x) for x in q)
    if not isinstance(q, dict):
        return False
    if q.get("k") == "or":
        branches = [set(json.dumps(c, sort_keys=True) for c in _flat(b, "and")) for b in _flat(q, "or")]
        common = set.intersection(*branches)
        if common and any(b <= common for b in branches) and any(not (b <= common) for b in branches):
            return True
    return any(has_or_absorption(v) for v in q.values())


def case_features(it, m):
    """Features of a failing case, computed mechanically from the case and the judge's expectation;
    they make known-finding signatures specific (a different failure of the same query is not matched)."""
    f = {}
    for t, d in it["db"].items():
        f["null_" + t] = any(v == [] for r in d["rows"] for v in r)
    o = it["obs"]
    if m.get("why") == "rows" and isinstance(m.get("exp"), list) and o["outcome"] == "rows":
        exp = [json.dumps(r) for r in m["exp"]]
        obs = [json.dumps(r) for r in o["rows"]]
        from collections import Counter
        ce, co = Counter(exp), Counter(obs)
        extra, missing = co - ce, ce - co
        f["delta"] = "both" if extra and missing else "extra" if extra else "missing" if missing else "order"
    f["limit_over_leftjoin"] = limit_over_leftjoin(it["q"])
    f["filter_agg"] = has_filter_agg(it["q"])
    if has_or_absorption(it["q"]):
        f["or_absorption"] = True
    if it["cfg"].get("hash_joins") is False:
        f["hash_joins_off"] = True
    bs = it["cfg"].get("batch_size")
    f["bs_lt_rows"] = bs is not None and any(len(d["rows"]) > bs for d in it["db"].values())
    return f


def make_db(tables, width=2, names=("a", "b", "c", "d"), classes=None):
    """tables: name -> rows; all int columns unless classes given."""
    db = {}
    for t, rows in tables.items():
        cl = classes[t] if classes and t in classes else ["i"] * (len(rows[0]) if rows else width)
        db[t] = {"names": list(names[:len(cl)]), "cols": cl, "rows": rows}
    return db


# --------------------------------------------------------------------------- shared generators
def gen_tables(rep, name, mr=3, mv=2):
    gt = gen("GenJoin", {"What": '"tables"', "MaxRows": mr, "MaxVal": mv}, name)
    rep.add_tlc(gt, f"GEN tables(width 2, <= {mr} rows, {{NULL,0..{mv}}})")
    return [p["rows"] for p in gt.printed if "rows" in p]


ABS_CLASSES = {"A": ["i", "i"], "B": ["i", "i"], "S": ["i", "t"]}
ABS_NAMES = {"A": ["a", "b"], "B": ["a", "b"], "S": ["a", "s"]}


def abs_db(ta, tb, ts):
    return {"A": {"names": ["a", "b"], "cols": ["i", "i"], "rows": ta},
            "B": {"names": ["a", "b"], "cols": ["i", "i"], "rows": tb},
            "S": {"names": ["a", "s"], "cols": ["i", "t"], "rows": ts}}


def pick_dbs(tables, rng, n):
    """n databases over A, B, S: fixed corner cases first, then seeded random triples."""
    full = [t for t in tables if len(t) == max(len(x) for x in tables)]
    nullish = [t for t in tables if t and any(v == [] for r in t for v in r)]
    dup = [t for t in tables if len(t) >= 2 and any(t[i] == t[i + 1] for i in range(len(t) - 1))]
    out = []
    fixed = [
        ([[[0], [1]], [[1], [1]], [[1], [2]]], [[[1], [0]], [[1], [1]], [[2], []]], [[[0], [0]], [[1], [1]], [[2], [1]]]),
        ([], [[[1], [1]]], [[[1], [0]]]),
        ([[[], [1]], [[], []], [[1], []]], [[[], [0]], [[1], [1]]], [[[], []], [[1], [2]]]),
        ([[[1], [1]], [[1], [1]], [[2], [0]]], [[[1], [1]], [[1], [1]]], [[[1], [1]], [[1], [1]], [[0], [2]]]),
        ([], [], []),
    ]
    for f in fixed[:n]:
        out.append(abs_db(*f))
    while len(out) < n:
        pool = rng.choice([tables, full, nullish or tables, dup or tables])
        out.append(abs_db(rng.choice(pool), rng.choice(pool), rng.choice(pool)))
    return out


def gen_select(rep, name, depth, simulate=None, seed=1, timeout=900, sample_k=1):
    """Query terms from GenSelect.tla: BFS to `depth` (optionally a random 1/sample_k sample), or
    -simulate num=N, where every successor state TLC generates along the random behaviours is a
    candidate and a 1/sample_k sample of them is emitted."""
    cfg = ("SPECIFICATION Spec\nINVARIANT Emit\nCHECK_DEADLOCK FALSE\nCONSTANTS\n  MaxDepth = %d\n  SampleK = %d\n"
           % (depth, sample_k))
    args = []
    if simulate:
        args = ["-simulate", f"num={simulate}", "-depth", str(depth + 1), "-seed", str(seed)]
    r = vlib.tlc("GenSelect", cfg, name, workers=(1 if simulate else 6), timeout=timeout, args=args, heap="6g")
    if r.error or (not r.ok and not simulate):
        raise vlib.ToolError(f"GenSelect failed: {r.error or r.violated}: {r.out[-1200:]}")
    rep.add_tlc(r, f"GEN GenSelect depth<={depth}" + (f" simulate num={simulate}" if simulate else " BFS"))
    seen, out = set(), []
    for p in r.printed:
        if "q" not in p:
            continue
        key = json.dumps(p["q"], sort_keys=True)
        if key in seen:
            continue
        seen.add(key)
        out.append(p)
    return out


def shape(q):
    """Short structural tag of a query term (for signatures and coverage tables)."""
    k = q["k"]
    if k == "scan":
        return q["t"]
    if k == "join":
        return f"{q['jt']}{'L' if q.get('lateral') else ''}J({shape(q['l'])},{shape(q['r'])})"
    if k == "union":
        return f"U{'A' if q['all'] else ''}({shape(q['l'])},{shape(q['r'])})"
    if k == "with":
        return f"with({shape(q['body'])};{shape(q['c'])})"
    if k == "values":
        return "values"
    if k == "agg":
        fs = "+".join(a["f"] + ("*" if a["star"] else "") + ("D" if a["dist"] else "") +
                      ("F" if a["filt"]["k"] != "none" else "") for a in q["aggs"])
        return f"agg[{len(q['keys'])};{fs}]({shape(q['c'])})"
    if k == "filter":
        return f"filter[{pshape(q['p'])}]({shape(q['c'])})"
    if k == "project":
        return f"project[{','.join(pshape(e) for e in q['es'])}]({shape(q['c'])})"
    return f"{k}({shape(q['c'])})"


def pshape(e):
    k = e["k"]
    if k in ("col", "lit"):
        return k[0]
    if k in ("scalar", "exists", "insub", "quant"):
        return f"{k}<{shape(e['q'])}>"
    subs = [pshape(v) for kk, v in e.items() if isinstance(v, dict) and "k" in v]
    for kk, v in e.items():
        if isinstance(v, list):
            subs += [pshape(x) for x in v if isinstance(x, dict) and "k" in x]
    return k + ("(" + ",".join(subs) + ")" if subs else "")


def run_tagged(prop, tier, module, consts, fam, dbs_fn, cfgs_fn, rule, extra_items=None, nontrivial=None,
               knobs_fn=None, post=None):
    """Common shape of the per-construct checks (C07-C09): tagged queries from a generator module x
    databases x configurations, executed and judged by TraceRel."""
    rep = vlib.Report(prop, tier)
    rng = random.Random(vlib.seed())
    g = gen(module, consts, f"{prop}-genq")
    rep.add_tlc(g, f"GEN {module} queries")
    queries = [p for p in g.printed if "q" in p]
    tables = gen_tables(rep, f"{prop}-gent")
    dbs = dbs_fn(tables, rng)
    cfgs = cfgs_fn(rng)
    run_ = RelRun(rep, fam)
    for qi, p in enumerate(queries):
        tag = "/".join(str(x) for x in p["tag"])
        for di, db in enumerate(dbs):
            if tier == "thorough":
                # every configuration for a sixth of the (query, database) pairs, two rotating ones for the rest
                chosen = cfgs if (qi + di) % 6 == 0 else [cfgs[(qi + di + j) % len(cfgs)] for j in range(2)]
            else:
                chosen = [cfgs[(qi + di) % len(cfgs)]]
            for c in chosen:
                c = dict(c)
                chunk = c.pop("_chunk", None)
                style = c.pop("_style", None)
                run_.add(tag, p["q"], db, c, style=style, extra={"knobs": {"table_chunk_capacity": chunk}} if chunk else None)
    if extra_items:
        extra_items(run_, queries, rng)
    run_.execute()
    mism = run_.judge()
    run_.report(mism, nontrivial=nontrivial)
    if post:
        post(rep, run_)
    rep.cov["rule"] = rule
    rep.cov["exhaustive"] = False
    rep.assumptions += ["sqlgen rendering (term -> SQL) is trusted", "TLC evaluates Algebra.tla correctly"]
    return rep.finish()


# ----------------------------------------------------------------------------- replay terms of recorded findings
def _c(i):
    return {"k": "col", "up": 0, "i": i}


def _cmp(op, a, b):
    return {"k": "cmp", "op": op, "l": a, "r": b}


def _join(jt, l, r, on, lw, rw):
    return {"k": "join", "jt": jt, "l": l, "r": r, "on": on, "lateral": False, "lw": lw, "rw": rw}


KF_SEMI_REORDER = _join("semi", _join("inner", {"k": "scan", "t": "B"}, {"k": "scan", "t": "S"}, _cmp("lt", _c(2), _c(3)), 2, 2),
                        {"k": "scan", "t": "S"}, {"k": "and", "l": _cmp("eq", _c(3), _c(5)), "r": _cmp("lt", _c(2), _c(5))}, 4, 2)
KF_LIMIT_LEFTJOIN = {"k": "limit", "n": 1, "off": 0,
                     "c": _join("left", {"k": "scan", "t": "A"}, {"k": "scan", "t": "A"}, _cmp("eq", _c(1), _c(3)), 2, 2)}
KF_DB = {"A": {"names": ["a", "b"], "cols": ["i", "i"], "rows": [[[0], [1]], [[1], [1]], [[1], [2]]]},
         "B": {"names": ["a", "b"], "cols": ["i", "i"], "rows": [[[1], [0]], [[1], [1]], [[2], []]]},
         "S": {"names": ["a", "s"], "cols": ["i", "t"], "rows": [[[0], [0]], [[1], [1]], [[2], [1]]]}}
