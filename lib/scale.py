"""Scale families (spec/Scale.tla, spec/TraceScale.tla): formula-built inputs of tens of thousands of rows whose
expected answers are closed forms TLC evaluates. The orchestrator only renders SQL and transports rows; TLC judges.

A family instance is a dict {fam, N, G, nullkey, A, lim, off, S, H, desc}; sources: "series" (generate_series
inline) or "table" (a temp table created with CTAS, optionally by several INSERTs so that it has several segments)."""
import json, math, os, concurrent.futures
import vlib, sqlgen

DEFAULTS = {"A": 1, "lim": -1, "off": 0, "S": 1, "H": 0, "desc": False, "nullkey": False}


def kexpr(inst):
    g = inst["G"]
    return f"CASE WHEN v % {g} = 0 THEN CAST(NULL AS BIGINT) ELSE v % {g} END" if inst["nullkey"] else f"v % {g}"


def render(inst, src):
    """-> (setup statements, query)"""
    n, g = inst["N"], inst["G"]
    setup = []
    if src == "series":
        t = f"(SELECT generate_series AS v FROM generate_series(1, {n})) t"
    else:
        parts = 3 if src == "table3" else 1
        setup.append("CREATE TEMP TABLE tn (v BIGINT)")
        step = (n + parts - 1) // parts
        for lo in range(1, n + 1, step):
            setup.append(f"INSERT INTO tn SELECT generate_series FROM generate_series({lo}, {min(n, lo + step - 1)})")
        t = "tn t"
    tk = f"(SELECT v, {kexpr(inst)} AS k FROM {t}) tk"
    u = f"(SELECT generate_series AS u FROM generate_series(0, {g - 1 + inst['S']}) WHERE generate_series % {inst['S']} = 0) uu"
    fam = inst["fam"]
    lim = (f" LIMIT {inst['lim']}" if inst["lim"] >= 0 else "") + (f" OFFSET {inst['off']}" if inst["off"] else "")
    if fam == "groupby":
        q = f"SELECT k, count(*), min(v), max(v), sum(v), var_pop(v) FROM {tk} GROUP BY k"
    elif fam == "distinct":
        q = f"SELECT DISTINCT k FROM {tk}"
    elif fam == "union":
        q = f"SELECT k FROM {tk} UNION SELECT k + {inst['H']} FROM {tk}"
    elif fam == "countd":
        q = f"SELECT count(DISTINCT k), count(k), count(*) FROM {tk}"
    elif fam == "sort":
        q = f"SELECT p FROM (SELECT (v * {inst['A']}) % {n} AS p FROM {t}) tp ORDER BY p{' DESC' if inst['desc'] else ''}{lim}"
    elif fam == "sort2":
        q = f"SELECT k, v FROM {tk} ORDER BY k, v DESC{lim}"
    elif fam == "joinagg":
        q = f"SELECT u, count(*), sum(v) FROM {tk} JOIN {u} ON k = u GROUP BY u"
    elif fam == "leftagg":
        q = f"SELECT u, count(v) FROM {u} LEFT JOIN {tk} ON k = u GROUP BY u"
    elif fam == "semi":
        q = f"SELECT count(*) FROM {tk} WHERE k IN (SELECT u FROM {u})"
    elif fam == "anti":
        q = f"SELECT count(*) FROM {tk} WHERE k NOT IN (SELECT u FROM {u})"
    else:
        raise ValueError(fam)
    return setup, q


def instances(tier, fams):
    out = []
    sizes = [(3000, 700), (20000, 4999), (30000, 50)] if tier == "quick" else [(3000, 700), (9000, 2100), (20000, 4999), (30000, 50), (30000, 7001), (12000, 12000)]
    for n, g in sizes:
        for fam in fams:
            base = dict(DEFAULTS, fam=fam, N=n, G=g)
            if fam in ("groupby", "distinct", "countd"):
                out += [base, dict(base, nullkey=True)]
            elif fam == "union":
                out += [dict(base, H=g // 2), dict(base, H=g // 3, nullkey=True)]
            elif fam == "sort":
                a = next(a for a in (7919, 7907, 104729, 11) if math.gcd(a, n) == 1 and a * n < 2 ** 31)
                out += [dict(base, A=a), dict(base, A=a, desc=True, lim=2500, off=17)]
            elif fam == "sort2":
                out += [base, dict(base, lim=3000, off=n // 2)]
            elif fam in ("joinagg", "leftagg", "semi"):
                out += [dict(base, S=3), dict(base, S=7, nullkey=True)]
            elif fam == "anti":
                # no NULL keys here: NULL NOT IN (...) is the recorded finding KF-IN-NULL-MARK, exercised with its own judge in C09
                out += [dict(base, S=3), dict(base, S=7)]
    return out


CONFS = [({"partitions": 1}, "table"), ({"partitions": 2}, "series"), ({"partitions": 16, "threads": 8}, "table3"),
         ({"partitions": 4, "batch_size": 100, "threads": 4}, "table3"), ({"partitions": 1, "batch_size": 8192}, "table3"),
         ({"partitions": 3, "hash_joins": False}, "table")]


def run(rep, tier, fams, prop):
    """execute the scale families and judge them with TraceScale.tla; mismatches are reported on rep"""
    insts = instances(tier, fams)
    cases, meta = [], {}
    for ii, inst in enumerate(insts):
        confs = CONFS if tier == "thorough" else [CONFS[(ii + j) % len(CONFS)] for j in (0, 2, 3)]
        for conf, src in confs:
            if conf.get("hash_joins") is False and (inst["fam"] not in ("joinagg", "leftagg", "semi", "anti") or inst["N"] * inst["G"] > 3000 * 700):
                continue
            setup, q = render(inst, src)
            steps = [{"sql": f"SET partitions = {conf['partitions']}"}]
            if "batch_size" in conf:
                steps.append({"sql": f"SET batch_size = {conf['batch_size']}"})
            if conf.get("hash_joins") is False:
                steps.append({"sql": "SET enable_hash_joins = false"})
            steps += [{"sql": s} for s in setup] + [{"sql": q}]
            cid = len(cases)
            case = {"id": cid, "rt": {"kind": "threaded", "threads": conf.get("threads", 2)}, "steps": steps, "timeout": 240}
            if conf.get("batch_size", 2048) < 2048:
                # table chunks never hold more rows than a batch (the engine's behaviour otherwise is C03's recorded finding KF-BATCH-LT-CHUNK)
                case["knobs"] = {"table_chunk_capacity": conf["batch_size"]}
            cases.append(case)
            meta[cid] = {"inst": inst, "conf": conf, "src": src, "sql": q}
    res = vlib.Driver(nworkers=8, case_timeout=240, mem_gb=4.0).run(cases)
    lines = []
    for c, r in zip(cases, res):
        m = meta[c["id"]]
        inst = m["inst"]
        if r is None or "steps" not in r:
            obs = {"outcome": "abort" if (r or {}).get("abort") else "timeout", "rows": []}
            m["msg"] = " || ".join(p for p in (r or {}).get("panic", []) if p)[:200]
        else:
            bad = [s for s in r["steps"][:-1] if s[-1].get("outcome") != "rows"]
            o = r["steps"][-1][-1]
            if bad:
                obs = {"outcome": "setup-" + bad[0][-1].get("outcome", "?"), "rows": []}
                m["msg"] = (bad[0][-1].get("msg") or "")[:200]
            elif o.get("outcome") == "rows":
                rows = []
                for row in o["rows"]:
                    enc = []
                    for j, v in enumerate(row):
                        if inst["fam"] == "groupby" and j == 5:
                            # var_pop is a float: transported as round(12 * x) (Scale.tla: Var12), i.e. compared up to rounding
                            x = sqlgen.f64_from_bits(v["f64"]) if isinstance(v, dict) and "f64" in v else None
                            enc.append([int(round(12 * x))] if x is not None and x == x and abs(x) < 1e8 else ["?" + json.dumps(v)])
                        else:
                            enc.append(sqlgen.enc_value(v))
                    rows.append(enc)
                obs = {"outcome": "rows", "rows": rows}
            else:
                obs = {"outcome": o.get("outcome"), "rows": []}
                m["msg"] = (o.get("msg") or "")[:200]
        lines.append(dict(inst, id=c["id"], obs=obs))
    wd = vlib.workdir(f"{prop}-scale")
    chunks, cur, cost = [], [], 0
    for ln in lines:
        cst = 50 + len(ln["obs"]["rows"])
        if cur and cost + cst > 120000:
            chunks.append(cur)
            cur, cost = [], 0
        cur.append(ln)
        cost += cst
    if cur:
        chunks.append(cur)

    def one(ci):
        path = os.path.join(wd, f"trace{ci}.ndjson")
        vlib.write_ndjson(path, chunks[ci])
        return ci, vlib.tlc("TraceScale", "SPECIFICATION TSpec\nPOSTCONDITION Accepted\nCHECK_DEADLOCK FALSE\n", f"{prop}-scale-tv{ci}",
                            env={"TRACE": path}, workers=1, timeout=1700, deque=True, heap="4g")
    mism = []
    with concurrent.futures.ThreadPoolExecutor(max_workers=4) as ex:
        for ci, r in ex.map(one, range(len(chunks))):
            if r.error or not r.ok:
                rep.tool_error(f"TraceScale chunk {ci}: {r.error or r.violated}: {r.out[-800:]}")
                continue
            rep.add_tlc(r, f"TV scale#{ci} (closed forms of Scale.tla, lemmas checked at load)", trace_lines=len(chunks[ci]))
            mism += [p for p in r.printed if isinstance(p, dict) and "mismatch" in p]
    byid = {ln["id"]: ln for ln in lines}
    for mm in mism:
        m = meta[mm["mismatch"]]
        inst = m["inst"]
        ln = byid[mm["mismatch"]]
        sig = {"family": "scale", "fam": inst["fam"], "why": mm["why"], "observed": ln["obs"]["outcome"], "nullkey": inst["nullkey"],
               "msg": vlib.re.sub(r"\d+", "#", m.get("msg", ""))[:120]}
        rep.mismatch(sig, {"inst": inst, "conf": m["conf"], "source": m["src"], "sql": m["sql"], "observed_rows": len(ln["obs"]["rows"]),
                           "first_rows": ln["obs"]["rows"][:5]})
    rep.cov["evaluations"] = rep.cov.get("evaluations", 0) + len(lines)
    rep.cov["scale_rule"] = ("scale families " + ", ".join(fams) + ": T(N) = 1..N with key v % G (N up to 30000, G up to 12000, NULL-key variant), from "
                             "generate_series or 1-3 segment temp tables, under 1/2/3/4/16 partitions, batch sizes 100/default/8192; expected answers are "
                             "the closed forms of Scale.tla (each justified by a TLC-checked lemma against brute force for all N <= 40, G <= 9)")
    return len(lines)
