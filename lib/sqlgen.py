"""Mechanical rendering of query/expression terms (the AST of spec/Algebra.tla)
to GlareDB SQL, and of observed engine values back to the spec's value encoding.

This is the trusted translation of binding mechanism (G). It is deliberately
syntax-directed: one clause per term, merged into one SELECT block where SQL
allows (so correlated references stay legal), wrapped in a derived table
otherwise.
"""
import struct
from fractions import Fraction

TEXTS = ["a", "b", "c", "d", "e", "f", "g", "h"]


class Unrenderable(Exception):
    pass


# --------------------------------------------------------------------------- values
def lit_sql(v, c, style=None):
    if v == []:
        return {"i": "NULL::INT", "t": "NULL::TEXT", "b": "NULL::BOOLEAN"}.get(c, "NULL")
    if c == "i":
        return str(v[0]) if v[0] >= 0 else f"({v[0]})"
    if c == "t":
        return "'" + text_of(v[0], style) + "'"
    if c == "b":
        return "true" if v[0] == 1 else "false"
    raise Unrenderable(f"literal class {c}")


# order-preserving (bytewise) values that differ only in trailing NUL bytes: inline strings are compared through a zero-padded prefix
NULTEXTS = ["", "\x00", "\x00\x00", "a", "a\x00", "a\x00\x00", "b", "b\x00"]


def text_of(n, style=None):
    s = TEXTS[n]
    if style and style.get("nultext"):
        return NULTEXTS[n]
    if style and style.get("longtext"):
        # > 12 bytes so the value is stored out of line; order-preserving.
        return "text-value-xx" + s * 3
    return s


def text_index(s, style=None):
    if style and style.get("nultext"):
        return NULTEXTS.index(s) if s in NULTEXTS else None
    if style and style.get("longtext"):
        if s.startswith("text-value-xx") and len(s) == 16:
            s = s[13]
    if s in TEXTS:
        return TEXTS.index(s)
    return None


def f64_from_bits(b):
    return struct.unpack("<d", struct.pack("<Q", int(b)))[0]


def f32_from_bits(b):
    return struct.unpack("<f", struct.pack("<I", int(b)))[0]


def rat(fr):
    fr = Fraction(fr)
    return [fr.numerator] if fr.denominator == 1 else [fr.numerator, fr.denominator]


def enc_value(v, style=None, maxden=1024):
    """Engine value (neutral JSON) -> spec value, or ('bad', why)."""
    if v is None:
        return []
    if isinstance(v, bool):
        return [1 if v else 0]
    if isinstance(v, int):
        return [v]
    if isinstance(v, str):
        i = text_index(v, style)
        return [i] if i is not None else ["?text:" + v]
    if isinstance(v, dict):
        if "f64" in v or "f32" in v:
            x = f64_from_bits(v["f64"]) if "f64" in v else f32_from_bits(v["f32"])
            if x != x or x in (float("inf"), float("-inf")):
                return ["?float:" + repr(x)]
            # "up to rounding": the nearest rational with a small denominator
            return rat(Fraction(x).limit_denominator(maxden))
        if "dec" in v:
            val, p, s = v["dec"]
            return rat(Fraction(int(val), 10 ** s))
        if "big" in v:
            return [int(v["big"])]
    return ["?value:" + str(v)[:40]]


def type_class(t):
    b = t.split("(")[0]
    if b.startswith("Int") or b.startswith("UInt"):
        return "i"
    if b == "Boolean":
        return "b"
    if b == "Utf8":
        return "t"
    if b.startswith("Float") or b.startswith("Decimal"):
        return "n"
    if b == "Null":
        return "x"
    return "?" + b


# --------------------------------------------------------------------------- blocks
class Block:
    def __init__(self):
        self.frm = None          # FROM text (None = no FROM)
        self.single = True       # FROM is a single item (can be the right side of a join)
        self.cols = []           # position -> SQL expression text
        self.where = []
        self.group = None        # list of SQL exprs, or None
        self.gkind = "plain"
        self.having = []
        self.distinct = False
        self.order = []
        self.limit = None
        self.stage = 0
        self.ctes = []


OPS = {"eq": "=", "ne": "<>", "lt": "<", "le": "<=", "gt": ">", "ge": ">="}
AOPS = {"add": "+", "sub": "-", "mul": "*"}


class Renderer:
    def __init__(self, dbc, style=None):
        """dbc: table name -> {'names': [...], 'cols': [classes]}"""
        self.dbc = dbc
        self.style = style or {}
        self.mat = "MATERIALIZED " if self.style.get("materialized_cte") else ""
        self.n = 0
        self.ctes = {}       # visible CTE name -> (unique sql name, width)
        self.hoisted = []    # (unique name, body sql), in dependency order

    def fresh(self):
        self.n += 1
        return f"s{self.n}"

    def ident(self, name):
        if self.style.get("quoted"):
            return '"' + name + '"'
        return name

    # ---- expressions
    def expr(self, e, frames):
        k = e["k"]
        X = lambda x: self.expr(x, frames)
        if k == "col":
            fr = frames[-1 - e["up"]]
            return fr[e["i"] - 1]
        if k == "lit":
            return lit_sql(e["v"], e["c"], self.style)
        if k == "cmp":
            return f"({X(e['l'])} {OPS[e['op']]} {X(e['r'])})"
        if k == "and":
            return f"({X(e['l'])} AND {X(e['r'])})"
        if k == "or":
            return f"({X(e['l'])} OR {X(e['r'])})"
        if k == "not":
            return f"(NOT {X(e['x'])})"
        if k == "isnull":
            return f"({X(e['x'])} IS NULL)"
        if k == "notnull":
            return f"({X(e['x'])} IS NOT NULL)"
        if k == "distinct":
            return f"({X(e['l'])} IS DISTINCT FROM {X(e['r'])})"
        if k == "notdistinct":
            return f"({X(e['l'])} IS NOT DISTINCT FROM {X(e['r'])})"
        if k == "arith":
            return f"({X(e['l'])} {AOPS[e['op']]} {X(e['r'])})"
        if k == "neg":
            return f"(-{X(e['x'])})"
        if k == "case":
            ws = " ".join(f"WHEN {X(w['c'])} THEN {X(w['t'])}" for w in e["whens"])
            return f"(CASE {ws} ELSE {X(e['els'])} END)"
        if k == "coalesce":
            return "coalesce(" + ", ".join(X(a) for a in e["args"]) + ")"
        if k == "inlist":
            return f"({X(e['x'])} IN (" + ", ".join(X(a) for a in e["list"]) + "))"
        if k == "between":
            return f"({X(e['x'])} BETWEEN {X(e['lo'])} AND {X(e['hi'])})"
        if k == "scalar":
            return "(" + self.subquery(e["q"], frames, first_only=True) + ")"
        if k == "exists":
            return "(EXISTS (" + self.subquery(e["q"], frames) + "))"
        if k == "insub":
            return f"({X(e['x'])} IN (" + self.subquery(e["q"], frames, first_only=True) + "))"
        if k == "quant":
            w = "ALL" if e["all"] else "ANY"
            return f"({X(e['x'])} {OPS[e['op']]} {w} (" + self.subquery(e["q"], frames, first_only=True) + "))"
        raise Unrenderable("expr " + k)

    def subquery(self, q, frames, first_only=False):
        b = self.block(q, frames)
        return self.finalize(b, first_only=first_only)

    # ---- queries
    def wrap(self, b, frames_unused=None):
        """Turn a finished block into a single FROM item of a new block."""
        sql = self.finalize(b)
        a = self.fresh()
        nb = Block()
        nb.frm = f"({sql}) AS {a}"
        nb.cols = [f"{a}.c{i+1}" for i in range(len(b.cols))]
        return nb

    def has_outer(self, x, depth=0):
        """Does term x reference a row outside itself (col.up > own nesting depth)?"""
        if isinstance(x, dict):
            if x.get("k") == "col":
                return x["up"] > depth
            sub = x.get("k") in ("scalar", "exists", "insub", "quant")
            for key, v in x.items():
                d = depth
                if sub and key == "q":
                    d = depth + 1
                if x.get("k") == "join" and x.get("lateral") and key == "r":
                    d = depth + 1
                if self.has_outer(v, d):
                    return True
            return False
        if isinstance(x, list):
            return any(self.has_outer(v, depth) for v in x)
        return False

    def wrap_checked(self, b, q):
        if self.has_outer(q):
            raise Unrenderable("correlated reference below a derived table")
        return self.wrap(b)

    def block(self, q, frames):
        k = q["k"]
        if k == "scan":
            t = q["t"]
            a = self.fresh()
            b = Block()
            if t in self.ctes:
                uname, w = self.ctes[t]
                b.frm = f"{uname} AS {a}"
                b.cols = [f"{a}.c{i+1}" for i in range(w)]
            else:
                names = self.dbc[t]["names"]
                b.frm = f"{self.ident(t)} AS {a}"
                b.cols = [f"{a}.{self.ident(n)}" for n in names]
            return b
        if k == "values":
            a = self.fresh()
            b = Block()
            w = len(q["cols"])
            if q["rows"]:
                rows = ", ".join("(" + ", ".join(lit_sql(v, c, self.style) for v, c in zip(r, q["cols"])) + ")"
                                 for r in q["rows"])
                b.frm = f"(VALUES {rows}) AS {a}(" + ", ".join(f"c{i+1}" for i in range(w)) + ")"
            else:
                sel = ", ".join(f"{lit_sql([], c)} AS c{i+1}" for i, c in enumerate(q["cols"]))
                b.frm = f"(SELECT {sel} WHERE false) AS {a}"
            b.cols = [f"{a}.c{i+1}" for i in range(w)]
            return b
        if k == "filter":
            b = self.block(q["c"], frames)
            if b.stage <= 1:
                b.where.append(self.expr(q["p"], frames + [b.cols]))
                b.stage = 1
            elif b.stage in (2, 3) and b.gkind == "plain":
                b.having.append(self.expr(q["p"], frames + [b.cols]))
                b.stage = 3
            else:
                b = self.wrap_checked(b, q["c"])
                b.where.append(self.expr(q["p"], frames + [b.cols]))
                b.stage = 1
            return b
        if k == "project":
            b = self.block(q["c"], frames)
            if b.stage > 3:
                b = self.wrap_checked(b, q["c"])
            b.cols = [self.expr(e, frames + [b.cols]) for e in q["es"]]
            b.stage = 4
            return b
        if k == "join":
            return self.join(q, frames)
        if k == "agg":
            b = self.block(q["c"], frames)
            if b.stage > 1:
                b = self.wrap_checked(b, q["c"])
            fr = frames + [b.cols]
            keys = [self.expr(e, fr) for e in q["keys"]]
            aggs = []
            for a in q["aggs"]:
                if a["star"]:
                    s = "count(*)"
                else:
                    arg = self.expr(a["x"], fr)
                    s = f"{a['f']}(" + ("DISTINCT " if a["dist"] else "") + arg + ")"
                if a["filt"]["k"] != "none":
                    s += f" FILTER (WHERE {self.expr(a['filt'], fr)})"
                aggs.append(s)
            grp = ["grouping(" + ", ".join(keys[i - 1] for i in g) + ")" for g in q["grouping"]]
            b.group = keys
            b.gkind = q.get("gkind", "plain")
            b.cols = keys + aggs + grp
            b.stage = 2
            return b
        if k == "distinct":
            b = self.block(q["c"], frames)
            if b.stage > 4:
                b = self.wrap_checked(b, q["c"])
            b.distinct = True
            b.stage = 5
            return b
        if k == "union":
            ls = self.operand(q["l"], frames)
            rs = self.operand(q["r"], frames)
            a = self.fresh()
            b = Block()
            w = self.width(q["l"])
            b.frm = f"({ls} UNION {'ALL ' if q['all'] else ''}{rs}) AS {a}"
            b.cols = [f"{a}.c{i+1}" for i in range(w)]
            if self.has_outer(q):
                raise Unrenderable("correlated reference below a set operation")
            return b
        if k == "sort":
            b = self.block(q["c"], frames)
            if b.stage > 5 or (b.distinct and any(x["e"]["k"] != "col" for x in q["keys"])):
                b = self.wrap_checked(b, q["c"])
            fr = frames + [b.cols]
            for x in q["keys"]:
                s = self.expr(x["e"], fr)
                s += " DESC" if x["desc"] else " ASC"
                if x["nf"] == "first":
                    s += " NULLS FIRST"
                elif x["nf"] == "last":
                    s += " NULLS LAST"
                b.order.append(s)
            b.stage = 6
            return b
        if k == "limit":
            b = self.block(q["c"], frames)
            if b.stage > 6:
                b = self.wrap_checked(b, q["c"])
            b.limit = (q["n"], q["off"])
            b.stage = 7
            return b
        if k == "with":
            # CTEs are hoisted to the top of the statement under a unique name
            if self.has_outer(q["body"]):
                raise Unrenderable("correlated CTE body")
            body = self.finalize(self.block(q["body"], frames))
            uname = f"cte{len(self.hoisted) + 1}_{q['name']}"
            self.hoisted.append((uname, body))
            saved = self.ctes.get(q["name"])
            self.ctes[q["name"]] = (uname, self.width(q["body"]))
            b = self.block(q["c"], frames)
            if saved is None:
                del self.ctes[q["name"]]
            else:
                self.ctes[q["name"]] = saved
            return b
        raise Unrenderable("query " + k)

    def operand(self, q, frames):
        b = self.block(q, frames)
        if b.stage >= 6 or b.ctes:
            b = self.wrap(b)
        return self.finalize(b)

    def from_item(self, q, frames):
        """Render q as a single FROM item; returns (text, cols)."""
        b = self.block(q, frames)
        if b.stage == 0 and b.single and not b.ctes:
            return b.frm, b.cols
        b = self.wrap(b)
        return b.frm, b.cols

    def join(self, q, frames):
        jt = q["jt"]
        lb = self.block(q["l"], frames)
        if lb.stage != 0 or lb.ctes:
            lb = self.wrap_checked(lb, q["l"])
        if q.get("lateral"):
            rb = self.block(q["r"], frames + [lb.cols])
            rsql = self.finalize(rb)
            a = self.fresh()
            rtxt = f"LATERAL ({rsql}) AS {a}"
            rcols = [f"{a}.c{i+1}" for i in range(len(rb.cols))]
        else:
            if self.has_outer(q["r"]) :
                # correlated right side without LATERAL is only legal for a bare scan/filter
                pass
            rtxt, rcols = self.from_item(q["r"], frames)
        b = Block()
        both = lb.cols + rcols
        if jt in ("semi", "anti") and self.style.get("semi_as_exists", jt == "anti"):
            # x SEMI/ANTI JOIN y ON p  ==  WHERE [NOT] EXISTS (SELECT 1 FROM y WHERE p)
            on = self.expr(q["on"], frames + [both])
            b.frm = lb.frm
            b.single = lb.single
            b.cols = lb.cols
            neg = "NOT " if jt == "anti" else ""
            b.where.append(f"({neg}EXISTS (SELECT 1 FROM {rtxt} WHERE {on}))")
            b.stage = 1
            return b
        if jt == "cross":
            b.frm = f"{lb.frm} CROSS JOIN {rtxt}"
            b.cols = both
        else:
            kw = {"inner": "INNER JOIN", "left": "LEFT JOIN", "right": "RIGHT JOIN",
                  "semi": "SEMI JOIN"}[jt]
            on = self.expr(q["on"], frames + [both])
            if self.style.get("bare_on") and q["on"].get("k") in ("and", "or") and on.startswith("(") and on.endswith(")"):
                on = on[1:-1]          # ON (l) AND (r): the conjunction itself is not parenthesised
            b.frm = f"{lb.frm} {kw} {rtxt} ON {on}"
            b.cols = lb.cols if jt == "semi" else both
        b.single = False
        return b

    def width(self, q):
        k = q["k"]
        if k == "scan":
            return self.ctes[q["t"]][1] if q["t"] in self.ctes else len(self.dbc[q["t"]]["names"])
        if k == "values":
            return len(q["cols"])
        if k in ("filter", "distinct", "sort", "limit"):
            return self.width(q["c"])
        if k == "project":
            return len(q["es"])
        if k == "join":
            if q["jt"] in ("semi", "anti"):
                return self.width(q["l"])
            return self.width(q["l"]) + self.width(q["r"])
        if k == "agg":
            return len(q["keys"]) + len(q["aggs"]) + len(q["grouping"])
        if k == "union":
            return self.width(q["l"])
        if k == "with":
            saved = self.ctes.get(q["name"])
            self.ctes[q["name"]] = ("?", self.width(q["body"]))
            w = self.width(q["c"])
            if saved is None:
                del self.ctes[q["name"]]
            else:
                self.ctes[q["name"]] = saved
            return w
        raise Unrenderable("width " + k)

    def finalize(self, b, first_only=False):
        cols = b.cols[:1] if first_only else b.cols
        sel = ", ".join(f"{c} AS c{i+1}" for i, c in enumerate(cols))
        s = ""
        if b.ctes:
            s += "WITH " + ", ".join(f"{n} AS {self.mat}({body})" for n, body in b.ctes) + " "
        s += "SELECT " + ("DISTINCT " if b.distinct else "") + sel
        if b.frm:
            s += " FROM " + b.frm
        if b.where:
            s += " WHERE " + " AND ".join(b.where)
        if b.group is not None and b.group:
            if b.gkind == "rollup":
                s += " GROUP BY ROLLUP (" + ", ".join(b.group) + ")"
            elif b.gkind == "cube":
                s += " GROUP BY CUBE (" + ", ".join(b.group) + ")"
            else:
                s += " GROUP BY " + ", ".join(b.group)
        if b.having:
            s += " HAVING " + " AND ".join(b.having)
        if b.order:
            s += " ORDER BY " + ", ".join(b.order)
        if b.limit is not None:
            s += f" LIMIT {b.limit[0]}"
            if b.limit[1]:
                s += f" OFFSET {b.limit[1]}"
        return s


def render_query(q, dbc, style=None):
    r = Renderer(dbc, style)
    b = r.block(q, [])
    sql = r.finalize(b)
    if r.hoisted:
        sql = "WITH " + ", ".join(f"{n} AS {r.mat}({body})" for n, body in r.hoisted) + " " + sql
    return sql


# --------------------------------------------------------------------------- databases
SQLTYPE = {"i": "INT", "t": "TEXT", "b": "BOOLEAN"}


def db_setup_sql(db, style=None):
    """db: name -> {'names': [...], 'cols': [...classes], 'rows': [[value...]...]}"""
    r = Renderer({}, style)
    out = []
    for t in sorted(db):
        d = db[t]
        cols = ", ".join(f"{r.ident(n)} {SQLTYPE[c]}" for n, c in zip(d["names"], d["cols"]))
        out.append(f"CREATE TEMP TABLE {r.ident(t)} ({cols})")
        if d["rows"] and style and style.get("split_inserts"):
            # one INSERT per row: every row is its own storage segment, so parallel scans spread the rows over
            # partitions (several sorted runs / partial aggregates / probe partitions even for tiny tables)
            for row in d["rows"]:
                out.append(f"INSERT INTO {r.ident(t)} VALUES (" + ", ".join(lit_sql(v, c, style) for v, c in zip(row, d["cols"])) + ")")
        elif d["rows"]:
            rows = ", ".join("(" + ", ".join(lit_sql(v, c, style) for v, c in zip(row, d["cols"])) + ")"
                             for row in d["rows"])
            out.append(f"INSERT INTO {r.ident(t)} VALUES {rows}")
    return out


def enc_rows(rows, style=None):
    return [[enc_value(v, style) for v in row] for row in rows]
