"""Shared machinery for the checks: harness build, TLC runs, driver supervisor,
known findings, evidence, exit conventions.

Exit codes: 0 property held on everything explored (known findings printed),
1 violation (VIOLATION line + replay file), 2 tool error / timeout / vacuity.
"""
import json, os, re, select, shutil, subprocess, sys, threading, time, hashlib, queue, resource, signal

VERIF = os.path.dirname(os.path.dirname(os.path.abspath(__file__)))
REPO = os.environ.get("VERIF_REPO", "/repo")
SPEC = os.path.join(VERIF, "spec")
WORK = os.path.join(VERIF, "work")
HARNESS = os.path.join(VERIF, "harness")
VDRIVER = os.path.join(HARNESS, "target", "debug", "vdriver")
TLA_CP = "/opt/veriftools/tla/tla2tools.jar:/opt/veriftools/tla/CommunityModules-deps.jar"
KNOWN = os.path.join(VERIF, "KNOWN_FINDINGS.jsonl")


class ToolError(Exception):
    pass


def log(*a):
    print(*a, file=sys.stderr, flush=True)


def seed():
    try:
        return int(os.environ.get("VERIF_SEED", "1"))
    except ValueError:
        return 1


# --------------------------------------------------------------------------- harness build
_built = False


def build_harness():
    """(Re)build the harness against /repo's current working tree."""
    global _built
    if _built:
        return
    lock_src = os.path.join(REPO, "Cargo.lock")
    lock_dst = os.path.join(HARNESS, "Cargo.lock")
    if not os.path.exists(lock_dst):
        shutil.copy(lock_src, lock_dst)
    t0 = time.time()
    env = dict(os.environ, CARGO_NET_OFFLINE="true")
    # Serialise builds across concurrently running checks.
    import fcntl
    os.makedirs(WORK, exist_ok=True)
    with open(os.path.join(WORK, ".build.lock"), "w") as lk:
        fcntl.flock(lk, fcntl.LOCK_EX)
        p = subprocess.run(["cargo", "build", "--offline"], cwd=HARNESS, env=env,
                           stdout=subprocess.PIPE, stderr=subprocess.STDOUT, text=True)
    if p.returncode != 0:
        log(p.stdout[-6000:])
        raise ToolError("harness build failed (does /repo still compile?)")
    log(f"[build] harness ok in {time.time()-t0:.1f}s")
    _built = True


# --------------------------------------------------------------------------- TLC
class TlcResult:
    def __init__(self):
        self.out = ""
        self.printed = []      # parsed JSON payloads of PrintT(ToJson(..)) lines
        self.generated = 0
        self.distinct = 0
        self.depth = 0
        self.ok = False
        self.violated = None   # name of violated invariant/property
        self.error = None
        self.coverage = {}
        self.wall = 0.0


_PRINT_RE = re.compile(r'^"(.*)"$')


def _unescape_tla_string(s):
    # TLC prints strings with \" and \\ escapes.
    out = []
    i = 0
    while i < len(s):
        c = s[i]
        if c == "\\" and i + 1 < len(s):
            n = s[i + 1]
            if n == "n":
                out.append("\n")
            elif n == "t":
                out.append("\t")
            else:
                out.append(n)
            i += 2
        else:
            out.append(c)
            i += 1
    return "".join(out)


def tlc(module, cfg_text, name, env=None, workers=8, args=(), timeout=600, heap="4g",
        deque=False, spec_dir=SPEC, keep_out=False):
    """Run TLC on spec/<module>.tla with the given config text."""
    wd = os.path.join(WORK, name)
    os.makedirs(wd, exist_ok=True)
    cfg = os.path.join(wd, f"{module}.cfg")
    with open(cfg, "w") as f:
        f.write(cfg_text)
    meta = os.path.join(wd, "meta")
    shutil.rmtree(meta, ignore_errors=True)
    jopts = "-Xss1g"
    if deque:
        jopts += " -Dtlc2.tool.queue.IStateQueue=StateDeque"
    e = dict(os.environ)
    e["JAVA_TOOL_OPTIONS"] = jopts
    if env:
        e.update({k: str(v) for k, v in env.items()})
    cmd = ["timeout", str(timeout), "java", "-XX:+UseParallelGC", f"-Xmx{heap}", "-cp", TLA_CP,
           "tlc2.TLC", "-workers", str(workers), "-metadir", meta, "-cleanup",
           "-noGenerateSpecTE", "-config", cfg] + list(args) + [os.path.join(spec_dir, module + ".tla")]
    t0 = time.time()
    p = subprocess.run(cmd, cwd=spec_dir, env=e, stdout=subprocess.PIPE, stderr=subprocess.STDOUT,
                       text=True, errors="replace")
    r = TlcResult()
    r.wall = time.time() - t0
    r.out = p.stdout
    if keep_out:
        with open(os.path.join(wd, f"{module}.out"), "w") as f:
            f.write(p.stdout)
    shutil.rmtree(meta, ignore_errors=True)
    if p.returncode == 124:
        r.error = f"TLC timeout after {timeout}s"
        return r
    for line in p.stdout.splitlines():
        if line.startswith('"') and line.endswith('"'):
            try:
                r.printed.append(json.loads(json.loads(line)))
            except Exception:
                try:
                    r.printed.append(json.loads(_unescape_tla_string(line[1:-1])))
                except Exception:
                    pass
            continue
        m = re.match(r"^(\d+) states generated, (\d+) distinct states found", line)
        if m:
            r.generated, r.distinct = int(m.group(1)), int(m.group(2))
        m = re.match(r"^The depth of the complete state graph search is (\d+)", line)
        if m:
            r.depth = int(m.group(1))
        m = re.match(r"^Error: Invariant (\S+) is violated", line)
        if m:
            r.violated = m.group(1)
        if line.startswith("Error: Temporal properties were violated") or \
           line.startswith("Error: Action property"):
            r.violated = r.violated or "temporal"
        if line.startswith("Error: Deadlock reached"):
            r.violated = r.violated or "deadlock"
        m = re.match(r"^<(\w+) line \d+, col \d+ to line \d+, col \d+ of module (\w+)>: (\d+):(\d+)", line)
        if m:
            r.coverage[m.group(1)] = r.coverage.get(m.group(1), 0) + int(m.group(4))
    if "Model checking completed. No error has been found." in p.stdout or \
       ("Finished computing initial states" in p.stdout and p.returncode == 0):
        r.ok = r.violated is None
    if p.returncode != 0 and r.violated is None:
        errs = [l for l in p.stdout.splitlines() if l.startswith("Error:") or "Exception" in l]
        # simulation mode exits 0 only when finished; treat other non-zero as error
        r.error = "; ".join(errs[:5]) or f"TLC exit {p.returncode}"
    elif p.returncode == 0:
        r.ok = r.violated is None
    return r


def sany(module, spec_dir=SPEC):
    p = subprocess.run(["java", "-cp", TLA_CP, "tla2sany.SANY", os.path.join(spec_dir, module + ".tla")],
                       cwd=spec_dir, stdout=subprocess.PIPE, stderr=subprocess.STDOUT, text=True)
    ok = p.returncode == 0 and "error" not in p.stdout.lower().replace("semantic errors:\n\n", "")
    return ok, p.stdout


# --------------------------------------------------------------------------- driver supervisor
class Driver:
    """Shards cases over vdriver child processes; a crash or timeout costs one case."""

    def __init__(self, nworkers=12, case_timeout=20.0, mem_gb=2.0, env=None):
        self.nworkers = nworkers
        self.case_timeout = case_timeout
        self.mem = int(mem_gb * (1 << 30))
        self.env = env or {}

    def _spawn(self):
        e = dict(os.environ, RUST_BACKTRACE="0")
        e.update(self.env)
        mem = self.mem

        def pre():
            os.setsid()
            if mem:
                resource.setrlimit(resource.RLIMIT_AS, (mem, mem))
            resource.setrlimit(resource.RLIMIT_CORE, (0, 0))
        return subprocess.Popen([VDRIVER], stdin=subprocess.PIPE, stdout=subprocess.PIPE,
                                stderr=subprocess.PIPE, preexec_fn=pre, bufsize=0, env=e)

    def _worker(self, q, results, lock):
        proc = None
        buf = b""
        served = 0
        while True:
            try:
                idx, case = q.get_nowait()
            except queue.Empty:
                break
            # a worker process is recycled after a few hundred cases: each case builds an engine with its own thread pool,
            # and in runs of tens of thousands of cases leftover threads / arenas would hit the process limits we impose
            if proc is not None and served >= 400 and proc.poll() is None:
                try:
                    proc.stdin.close()
                    proc.wait(timeout=5)
                except Exception:
                    try:
                        proc.kill()
                    except Exception:
                        pass
                proc = None
            if proc is None or proc.poll() is not None:
                proc = self._spawn()
                buf = b""
                served = 0
            # weight = the threads the case's engine starts (a thread pool per engine; their stacks count against RLIMIT_AS)
            served += max(2, int((case.get("rt") or {}).get("threads", 2)))
            line = (json.dumps(case) + "\n").encode()
            obs = None
            extra = []
            try:
                proc.stdin.write(line)
                proc.stdin.flush()
            except Exception:
                pass
            deadline = time.time() + case.get("timeout", self.case_timeout)
            dead = False
            while True:
                if b"\n" in buf:
                    l, buf = buf.split(b"\n", 1)
                    try:
                        v = json.loads(l)
                    except Exception:
                        continue
                    if "abort_panic" in v:
                        extra.append(v)
                        continue
                    obs = v
                    break
                remaining = deadline - time.time()
                if remaining <= 0:
                    break
                r, _, _ = select.select([proc.stdout], [], [], min(remaining, 1.0))
                if r:
                    chunk = os.read(proc.stdout.fileno(), 1 << 16)
                    if not chunk:
                        dead = True
                        break
                    buf += chunk
            if obs is None:
                if dead:
                    try:
                        proc.wait(timeout=5)
                    except Exception:
                        pass
                    rc = proc.returncode
                    try:
                        err = proc.stderr.read().decode(errors="replace")[-1500:]
                    except Exception:
                        err = ""
                    obs = {"id": case.get("id"), "abort": True, "rc": rc,
                           "panic": [x.get("abort_panic") for x in extra], "stderr_tail": err}
                else:
                    obs = {"id": case.get("id"), "timeout": True,
                           "panic": [x.get("abort_panic") for x in extra]}
                    try:
                        os.killpg(proc.pid, signal.SIGKILL)
                    except Exception:
                        pass
                try:
                    proc.kill()
                except Exception:
                    pass
                proc = None
                buf = b""
            elif extra:
                obs["abort_panics"] = [x.get("abort_panic") for x in extra]
            with lock:
                results[idx] = obs
        if proc is not None:
            try:
                proc.stdin.close()
                proc.wait(timeout=5)
            except Exception:
                try:
                    proc.kill()
                except Exception:
                    pass

    def run(self, cases):
        q = queue.Queue()
        for i, c in enumerate(cases):
            q.put((i, c))
        results = [None] * len(cases)
        lock = threading.Lock()
        ths = [threading.Thread(target=self._worker, args=(q, results, lock))
               for _ in range(min(self.nworkers, max(1, len(cases))))]
        for t in ths:
            t.start()
        for t in ths:
            t.join()
        return results


# --------------------------------------------------------------------------- known findings
def load_known(prop):
    out = []
    if os.path.exists(KNOWN):
        for l in open(KNOWN):
            l = l.strip()
            if not l or l.startswith("#"):
                continue
            k = json.loads(l)
            out.append(k)
    return out


def sig_matches(entry_sig, sig):
    """An open entry suppresses a mismatch only if every key of its signature equals the mismatch's."""
    for k, v in entry_sig.items():
        if sig.get(k) != v:
            return False
    return True


class Report:
    """Collects mismatches, separates known findings from violations, writes evidence."""

    def __init__(self, prop, tier, level="model_checking"):
        self.prop = prop
        self.tier = tier
        self.level = level
        self.t0 = time.time()
        self.known = [k for k in load_known(prop) if k.get("status") == "open"]
        self.known_hit = {}
        self.violations = []
        self.cov = {"states": 0, "transitions": 0, "traces_validated_against_impl": 0,
                    "evaluations": 0, "distinct_nontrivial": 0, "samples": [], "rule": "",
                    "mc": [], "families": {}}
        self.assumptions = []
        self.tool_errors = []

    def mismatch(self, sig, detail):
        for k in self.known:
            sigs = k.get("signatures") or [k["signature"]]
            if any(sig_matches(es, sig) for es in sigs):
                self.known_hit.setdefault(k["id"], []).append(detail)
                return "known"
        self.violations.append({"signature": sig, "detail": detail})
        return "violation"

    def add_tlc(self, r, label, trace_lines=0):
        self.cov["states"] += r.distinct
        self.cov["transitions"] += r.generated
        self.cov["traces_validated_against_impl"] += trace_lines
        self.cov["mc"].append({"run": label, "distinct": r.distinct, "generated": r.generated,
                               "depth": r.depth, "wall_s": round(r.wall, 1),
                               "coverage": r.coverage if len(r.coverage) < 60 else None})

    def tool_error(self, msg):
        self.tool_errors.append(msg)
        log("[tool-error]", msg)

    def finish(self):
        os.makedirs(os.path.join(VERIF, "evidence"), exist_ok=True)
        os.makedirs(os.path.join(VERIF, "replays"), exist_ok=True)
        for k in self.known:
            if k["id"] in self.known_hit:
                print(f"KNOWN-FINDING: property={self.prop} {k['what']} [{k['id']}; "
                      f"{len(self.known_hit[k['id']])} occurrence(s) this run]")
            elif k.get("replay_in", (k.get("properties") or [None])[0]) == self.prop:
                print(f"NOTE known finding not reproduced in this run: {k['id']}")
        replay = None
        if self.violations:
            replay = os.path.join(VERIF, "replays", f"{self.prop}-{self.tier}-{seed()}.json")
            sigs = {}
            for v in self.violations:
                k = json.dumps(v["signature"], sort_keys=True)
                sigs[k] = sigs.get(k, 0) + 1
            # keep one example per signature first, then fill up
            firsts, seen = [], set()
            for v in self.violations:
                k = json.dumps(v["signature"], sort_keys=True)
                if k not in seen:
                    seen.add(k)
                    firsts.append(v)
            rest = [v for v in self.violations if v not in firsts][:max(0, 200 - len(firsts))]
            with open(replay, "w") as f:
                json.dump({"property": self.prop, "signatures": [{"signature": json.loads(k), "count": n} for k, n in sigs.items()],
                           "violations": firsts[:400] + rest}, f, indent=1)
        ev = {
            "property_id": self.prop, "tier": self.tier, "seed": seed(), "level": self.level,
            "coverage": self.cov, "assumptions": self.assumptions,
            "wall_s": round(time.time() - self.t0, 1), "violations": len(self.violations),
            "known_findings_observed": sorted(self.known_hit.keys()),
            "tool_errors": self.tool_errors,
        }
        with open(os.path.join(VERIF, "evidence", f"{self.prop}.json"), "w") as f:
            json.dump(ev, f, indent=1)
        if self.tool_errors:
            for e in self.tool_errors:
                print(f"TOOL-ERROR: {e}")
            if not self.violations:
                return 2
        if self.violations:
            seen = set()
            for v in self.violations:
                key = json.dumps(v["signature"], sort_keys=True)
                if key in seen:
                    continue
                seen.add(key)
                if len(seen) <= 15:
                    print(f"  mismatch signature={key}")
            print(f"VIOLATION property={self.prop} replay={replay}")
            return 1
        print(f"OK property={self.prop} tier={self.tier} evaluations={self.cov['evaluations']} "
              f"states={self.cov['states']} traces={self.cov['traces_validated_against_impl']} "
              f"wall={time.time()-self.t0:.0f}s")
        return 0


def write_ndjson(path, recs):
    with open(path, "w") as f:
        for r in recs:
            f.write(json.dumps(r, separators=(",", ":")) + "\n")


def workdir(name):
    d = os.path.join(WORK, name)
    shutil.rmtree(d, ignore_errors=True)
    os.makedirs(d, exist_ok=True)
    return d
