"""BigInt transport: Python int <-> the limb records of spec/BigInt.tla."""
BASE = 10000


def enc(n):
    n = int(n)
    neg = n < 0
    m = -n if neg else n
    mag = []
    while m:
        mag.append(m % BASE)
        m //= BASE
    return {"neg": neg and bool(mag), "mag": mag}


def dec(r):
    v = 0
    for limb in reversed(r["mag"]):
        v = v * BASE + limb
    return -v if r["neg"] else v
